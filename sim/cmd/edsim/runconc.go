package main

import (
	"encoding/json"
	"fmt"
	"os"
	"path/filepath"
	"sort"
	"strings"
	"sync"
	"time"
)

const gorace = "history_size=7 halt_on_error=1 exitcode=66 atexit_sleep_ms=0"

func raceEnv(logPrefix string) []string {
	return []string{"GORACE=" + gorace + " log_path=" + logPrefix}
}

func readRaceLog(prefix string) string {
	m, _ := filepath.Glob(prefix + ".*")
	sort.Strings(m)
	var sb strings.Builder
	for _, f := range m {
		b, _ := os.ReadFile(f)
		sb.Write(b)
	}
	return sb.String()
}

// normaliseRace strips addresses, goroutine and thread ids from a race
// report, so that a run and its replay can be compared.
func normaliseRace(s string) string {
	var out []string
	for _, l := range strings.Split(s, "\n") {
		l = strings.TrimSpace(l)
		if l == "" || strings.HasPrefix(l, "====") {
			continue
		}
		if i := strings.Index(l, " +0x"); i >= 0 {
			l = l[:i]
		}
		if strings.Contains(l, "at 0x") {
			if i := strings.Index(l, " at 0x"); i >= 0 {
				l = l[:i]
			}
		}
		if strings.HasPrefix(l, "Goroutine ") || strings.Contains(l, "created at:") {
			l = "Goroutine created at:"
		}
		out = append(out, l)
		if len(out) > 60 {
			break
		}
	}
	return strings.Join(out, "\n")
}

// raceSites extracts the two conflicting accesses of a report: kind of access
// and the innermost frame that lies in the library under test.
func raceSites(s string) string {
	var sites []string
	lines := strings.Split(s, "\n")
	for i := 0; i < len(lines); i++ {
		t := strings.TrimSpace(lines[i])
		isAcc := strings.HasPrefix(t, "Write at") || strings.HasPrefix(t, "Read at") || strings.HasPrefix(t, "Previous write at") || strings.HasPrefix(t, "Previous read at")
		if !isAcc {
			continue
		}
		kind := strings.Fields(t)[0]
		if kind == "Previous" {
			kind = "previous " + strings.Fields(t)[1]
		}
		first, lib := "", ""
		for j := i + 1; j+1 < len(lines); j += 2 {
			fn := strings.TrimSpace(lines[j])
			loc := strings.TrimSpace(lines[j+1])
			if fn == "" {
				break
			}
			if k := strings.Index(loc, " +0x"); k >= 0 {
				loc = loc[:k]
			}
			if first == "" {
				first = fn + " " + loc
			}
			if strings.Contains(loc, "oasisprotocol/ed25519") && !strings.Contains(loc, "zzsimrt") {
				lib = fn + " " + loc
				break
			}
		}
		if lib == "" {
			lib = first
		}
		sites = append(sites, strings.ToLower(kind)+" in "+lib)
	}
	if len(sites) > 2 {
		sites = sites[:2]
	}
	return strings.Join(sites, " <-> ")
}

func concConfigs(tier string, seed uint64) []Config {
	if tier == "thorough" {
		return allConfigs[:5]
	}
	rot := []string{"noasm", "appengine", "force32bit_appengine"}[seed%3]
	c, _ := configByName(rot)
	return []Config{allConfigs[0], allConfigs[2], c}
}

// canary proves the race detector is alive and cannot see the baton.
func canary(b *Build, cfg string) error {
	bin := b.Bins[cfg+"-race"]
	pfx := filepath.Join(b.Scratch, "canary-"+cfg)
	r := runWorker(bin, []string{"canary"}, raceEnv(pfx), 2*time.Minute)
	rep := readRaceLog(pfx)
	if r.exit != 66 || !strings.Contains(rep, "DATA RACE") {
		return fmt.Errorf("canary (%s): two serialised clients writing one unsynchronised variable were NOT reported (exit %d); the race detector is not judging this build", cfg, r.exit)
	}
	pfx2 := filepath.Join(b.Scratch, "canary-locked-"+cfg)
	r = runWorker(bin, []string{"canary", "-prop", "locked"}, raceEnv(pfx2), 2*time.Minute)
	if r.exit != 0 || readRaceLog(pfx2) != "" {
		return fmt.Errorf("canary (%s): the mutex-protected variant was reported (exit %d); the detector sees the scheduler", cfg, r.exit)
	}
	return nil
}

// soloRace: a solo reference run (one call, one caller) was reported by the
// race detector: the library races with goroutines it started itself.
type soloRace struct {
	idx    int
	report string
}

func (e *soloRace) Error() string {
	return fmt.Sprintf("solo run of pool op %d reported a data race", e.idx)
}

// soloRefs executes every pool op as the first and only library call of a
// fresh process and returns the reference file.
func soloRefs(bin, poolFile string, n int, outFile string, env []string) error {
	refs := make([]map[string]interface{}, n)
	var wg sync.WaitGroup
	sem := make(chan struct{}, 16)
	var mu sync.Mutex
	var firstErr error
	for i := 0; i < n; i++ {
		wg.Add(1)
		go func(i int) {
			defer wg.Done()
			sem <- struct{}{}
			defer func() { <-sem }()
			var penv []string
			pfx := ""
			for _, e := range env {
				if strings.HasPrefix(e, "GORACE=") && strings.Contains(e, "log_path=") {
					// one log per solo process, so that a report can be attributed
					pfx = e[strings.Index(e, "log_path=")+9:] + fmt.Sprintf("-%d", i)
					e = e[:strings.Index(e, "log_path=")] + "log_path=" + pfx
				}
				penv = append(penv, e)
			}
			r := runWorker(bin, []string{"solo", "-pool", poolFile, "-index", fmt.Sprint(i)}, penv, 5*time.Minute)
			if pfx != "" {
				if rep := readRaceLog(pfx); rep != "" || r.exit == 66 {
					mu.Lock()
					if _, isRace := firstErr.(*soloRace); !isRace {
						firstErr = &soloRace{i, rep}
					}
					mu.Unlock()
					return
				}
			}
			var ref map[string]interface{}
			for _, line := range strings.Split(string(r.stdout), "\n") {
				if m := decodeObj([]byte(line)); m != nil && m["t"] == "ref" {
					ref = m
				}
			}
			mu.Lock()
			defer mu.Unlock()
			if ref == nil || r.exit != 0 {
				if firstErr == nil {
					firstErr = fmt.Errorf("solo reference of pool op %d failed (exit %d): %s", i, r.exit, tail(r.stderr, 10))
				}
				return
			}
			refs[i] = ref
		}(i)
	}
	wg.Wait()
	if firstErr != nil {
		return firstErr
	}
	return writeJSON(outFile, refs)
}

type concViolation struct {
	rec     map[string]interface{}
	cfg     string
	worker  int
	idx     int
	race    string
	checkID string
	from    int // first episode of the process it happened in
	fu      int // -firstuse value of that process (-1: none)
	family  string
}

func checkConc(prop, tier string, seed uint64, spec propSpec, start time.Time) int {
	cfgs := concConfigs(tier, seed)
	build := append([]Config{}, cfgs...)
	race := make([]bool, len(build))
	for i := range race {
		race[i] = true
	}
	if tier == "thorough" {
		build = append(build, allConfigs[5])
		race = append(race, false)
	}
	b, err := prepareBuild(build, race)
	defer b.Cleanup()
	if err != nil {
		infraf("%v", err)
	}
	fmt.Printf("edsim: instrumented %d points in %d files; built %d binaries in %.1fs\n", b.Points, b.Files, len(b.Bins), b.BuildS)
	if err := canary(b, cfgs[0].Name); err != nil {
		infraf("%v", err)
	}
	fmt.Println("edsim: canary ok (unsynchronised write reported, mutex-protected write silent)")

	npool := 200
	if tier == "thorough" {
		npool = 1200
	}
	poolFile := filepath.Join(b.Scratch, "pool.json")
	r := runWorker(b.Bins[cfgs[0].Name+"-race"], []string{"genpool", "-seed", fmt.Sprint(seed), "-n", fmt.Sprint(npool)}, nil, 5*time.Minute)
	if r.exit != 0 || len(r.stdout) == 0 {
		infraf("genpool failed: %s", tail(r.stderr, 10))
	}
	os.WriteFile(poolFile, r.stdout, 0o644)

	type target struct {
		cfg    Config
		bin    string
		env    func(pfx string) []string
		family string
	}
	var targets []target
	for _, c := range cfgs {
		targets = append(targets, target{c, b.Bins[c.Name+"-race"], raceEnv, ""})
	}
	if tier == "thorough" {
		targets = append(targets, target{allConfigs[5], b.Bins["386"], func(string) []string { return nil }, "seq"})
	}
	t1 := time.Now()
	refFiles := map[string]string{}
	for _, t := range targets {
		rf := filepath.Join(b.Scratch, "refs-"+t.cfg.Name+".json")
		if err := soloRefs(t.bin, poolFile, npool, rf, t.env(filepath.Join(b.Scratch, "solo-race-"+t.cfg.Name))); err != nil {
			if sr, ok := err.(*soloRace); ok {
				return reportSoloRace(b, t.bin, t.env, t.cfg.Name, poolFile, seed, sr, spec, tier, start)
			}
			infraf("%v", err)
		}
		refFiles[t.cfg.Name] = rf
	}
	fmt.Printf("edsim: %d solo references x %d configurations (one fresh process each) in %.1fs\n", npool, len(targets), time.Since(t1).Seconds())

	// determinism self-test: the same worker stream twice, different GOMAXPROCS
	if err := concDeterminism(b, targets[0].bin, poolFile, refFiles[targets[0].cfg.Name], seed, 6, 2); err != nil {
		infraf("determinism self-test: %v", err)
	}

	dur := spec.quickS
	if tier == "thorough" {
		dur = spec.thorS
	}
	if d := os.Getenv("VERIF_DUR"); d != "" {
		fmt.Sscan(d, &dur)
	}
	nw := 16
	type plan struct {
		t      target
		worker int
	}
	var plans []plan
	for i := 0; i < nw; i++ {
		plans = append(plans, plan{targets[i%len(targets)], i})
	}
	// One worker in four lives for the whole budget (long process histories:
	// leaked resources, pools filling up). The others are restarted every
	// round: a fresh process is the only place where first-use state (lazy
	// initialisation, "already checked" flags) can be caught in the act, so
	// each restart begins with a first-use twin episode.
	rounds := 5
	if tier == "thorough" {
		rounds = 20
	}
	if dur < 2*rounds {
		rounds = 1
	}
	var results []*workerResult
	var rmu sync.Mutex
	processes := 0
	var wg sync.WaitGroup
	for _, p := range plans {
		wg.Add(1)
		go func(p plan) {
			defer wg.Done()
			nr, d := rounds, dur/rounds
			if p.worker%4 == 0 || p.t.family != "" {
				nr, d = 1, dur
			}
			from := 0
			for round, sub := 0, 0; round < nr; round++ {
				roundEnd := time.Now().Add(time.Duration(d) * time.Second)
			again:
				left := int(time.Until(roundEnd).Seconds())
				if left < 1 {
					left = 1
				}
				sub++
				pfx := filepath.Join(b.Scratch, fmt.Sprintf("race-%s-%d-%d-%d", p.t.cfg.Name, p.worker, round, sub))
				args := []string{"conc", "-config", p.t.cfg.Name, "-seed", fmt.Sprint(seed), "-worker", fmt.Sprint(p.worker), "-pool", poolFile,
					"-ref", refFiles[p.t.cfg.Name], "-dur", fmt.Sprintf("%ds", left), "-from", fmt.Sprint(from)}
				if p.t.family != "" {
					args = append(args, "-family", p.t.family)
				} else if nr > 1 {
					args = append(args, "-firstuse", fmt.Sprint(round*nw+p.worker))
				}
				r := runWorker(p.t.bin, args, p.t.env(pfx), 2*time.Duration(d)*time.Second+15*time.Minute)
				r.cfg, r.worker = p.t.cfg.Name, p.worker
				r.from, r.firstuse = from, -1
				if p.t.family == "" && nr > 1 {
					r.firstuse = round*nw + p.worker
				}
				if rep := readRaceLog(pfx); rep != "" {
					r.raceLogs = []string{rep}
				}
				rmu.Lock()
				results = append(results, r)
				processes++
				rmu.Unlock()
				if r.exit != 0 || r.stats == nil {
					return
				}
				from = int(num(r.stats, "last_idx"))
				if n, ok := r.stats["notes"].(map[string]interface{}); ok && num(n, "process_ended_early_library_goroutines_alive") > 0 && time.Until(roundEnd) > 2*time.Second && sub < 4000 {
					// the worker stopped after an episode that left goroutines of
					// the library alive: a fresh process takes over for the rest
					// of the round
					goto again
				}
			}
		}(p)
	}
	wg.Wait()
	// single-preemption sweep: for ordered pairs of short ops, preempt the
	// first at every grid point of its solo length (deterministic plan, split
	// over 16 workers; complete in the thorough tier, a prefix in the quick one)
	sweepDur := 8
	if tier == "thorough" {
		sweepDur = 600
	}
	if dur < 20 {
		sweepDur = 0
	}
	sweepTotal, sweepDone, sweepComplete := 0, 0, 0
	if sweepDur > 0 {
		var swg sync.WaitGroup
		for i := 0; i < nw; i++ {
			swg.Add(1)
			go func(i int) {
				defer swg.Done()
				t := targets[i%min(2, len(cfgs))]
				pfx := filepath.Join(b.Scratch, fmt.Sprintf("race-sweep-%d", i))
				args := []string{"conc", "-config", t.cfg.Name, "-seed", fmt.Sprint(seed), "-worker", fmt.Sprint(100 + i), "-pool", poolFile,
					"-ref", refFiles[t.cfg.Name], "-dur", fmt.Sprintf("%ds", sweepDur), "-family", "sweep", "-eidx", fmt.Sprint(i / min(2, len(cfgs))), "-en", fmt.Sprint((nw + 1) / min(2, len(cfgs)))}
				r := runWorker(t.bin, args, t.env(pfx), 2*time.Duration(sweepDur)*time.Second+15*time.Minute)
				r.cfg, r.worker, r.firstuse, r.family = t.cfg.Name, 100+i, -1, "sweep"
				if rep := readRaceLog(pfx); rep != "" {
					r.raceLogs = []string{rep}
				}
				rmu.Lock()
				results = append(results, r)
				processes++
				if r.stats != nil {
					if n, ok := r.stats["notes"].(map[string]interface{}); ok {
						sweepTotal = int(num(n, "sweep_total"))
						sweepDone += int(num(n, "sweep_done"))
						sweepComplete += int(num(n, "sweep_complete"))
					}
				}
				rmu.Unlock()
			}(i)
		}
		swg.Wait()
	}
	sort.SliceStable(results, func(i, j int) bool {
		if results[i].worker != results[j].worker {
			return results[i].worker < results[j].worker
		}
		return results[i].from < results[j].from
	})

	agg := newAgg()
	var viols []concViolation
	for i, r := range results {
		if r.killed {
			infraf("conc worker %d (%s) exceeded its wall-clock limit (last episode %d)", r.worker, r.cfg, r.lastEp)
		}
		switch {
		case r.exit == 66 || len(r.raceLogs) > 0:
			rep := strings.Join(r.raceLogs, "\n")
			rec := map[string]interface{}{"t": "violation", "prop": "C15", "check_id": "conc-race", "engine": "conc", "config": r.cfg, "seed": seed,
				"worker": r.worker, "index": r.lastEp, "msg": "data race between library calls of different caller goroutines: " + raceSites(rep),
				"race_report": normaliseRace(rep)}
			viols = append(viols, concViolation{rec, r.cfg, r.worker, r.lastEp, rep, "conc-race", r.from, r.firstuse, r.family})
		case r.exit == 1 && len(r.viols) > 0:
			v := r.viols[0]
			viols = append(viols, concViolation{v, r.cfg, r.worker, int(num(v, "index")), "", fmt.Sprint(v["check_id"]), r.from, r.firstuse, r.family})
		case r.exit == 0 && r.stats != nil:
			agg.addConc(r.stats)
		case strings.Contains(r.stderr, "fatal error: concurrent map"):
			rec := map[string]interface{}{"t": "violation", "prop": "C15", "check_id": "conc-race-fatal", "engine": "conc", "config": r.cfg, "seed": seed,
				"worker": r.worker, "index": r.lastEp, "msg": "runtime detected unsynchronised concurrent map access: " + firstLine(r.stderr, "fatal error")}
			viols = append(viols, concViolation{rec, r.cfg, r.worker, r.lastEp, "", "conc-race-fatal", r.from, r.firstuse, r.family})
		default:
			infraf("conc worker %d (%s) exited with status %d (last episode %d):\n%s", r.worker, r.cfg, r.exit, r.lastEp, tail(r.stderr, 30))
		}
		_ = i
	}
	var cfgNames []string
	for _, t := range targets {
		cfgNames = append(cfgNames, t.cfg.Name)
	}
	ev := agg.evidenceConc(tier, seed, spec, cfgNames, b, npool, time.Since(start).Seconds())
	ev["coverage"].(map[string]interface{})["single_preemption_sweep"] = map[string]interface{}{
		"plan_size_per_configuration": sweepTotal, "episodes_done": sweepDone, "workers_that_finished_their_share": sweepComplete,
		"note": "ordered pairs of short pool ops; the first is preempted at every grid point (<= 240 per op, every point for ops of up to 240 points) of its measured solo length, the second runs to completion, the first resumes; deterministic plan split over the workers",
	}
	ev["coverage"].(map[string]interface{})["worker_processes"] = processes
	ev["coverage"].(map[string]interface{})["worker_process_note"] = "one worker in four runs as a single long-lived process; the others are restarted every round and begin each life with a first-use twin episode"
	code := exitOK
	reported := 0
	known := loadKnown()
	seen := map[string]bool{}
	for _, v := range viols {
		key := v.checkID
		if v.checkID == "conc-race" {
			key += raceSites(v.race)
		}
		if seen[key] {
			continue
		}
		seen[key] = true
		if k := known.match(v.rec); k != nil {
			fmt.Printf("KNOWN-FINDING: property=%s %s\n", prop, k.What)
			continue
		}
		if reported >= 2 {
			continue // enough replay files; the remaining ones are further symptoms
		}
		var tg target
		for _, t := range targets {
			if t.cfg.Name == v.cfg {
				tg = t
			}
		}
		fam := tg.family
		if v.family != "" {
			fam = v.family
		}
		path := finishConcViolation(b, tg.bin, tg.env, fam, poolFile, refFiles[v.cfg], seed, v, tier, npool)
		fmt.Printf("VIOLATION property=%s replay=%s\n", prop, path)
		fmt.Printf("  check=%s config=%s worker=%d episode=%d: %v\n", v.checkID, v.cfg, v.worker, v.idx, v.rec["msg"])
		reported++
		code = exitViol
	}
	ev["violations"] = reported
	if code == exitOK {
		if err := agg.vacuityConc(); err != nil {
			writeEvidence(prop, ev)
			infraf("vacuity guard: %v", err)
		}
	}
	writeEvidence(prop, ev)
	cov := ev["coverage"].(map[string]interface{})
	fmt.Printf("edsim: C15 %s: %v episodes, %v calls, %v context switches (%v inside operations), %v distinct schedule signatures, %v logical steps, %d violation(s), %.1fs\n",
		tier, cov["evaluations"], cov["library_calls"], cov["context_switches"], cov["preemptions_inside_operations"], cov["distinct_nontrivial"], cov["simulated_steps"], reported, time.Since(start).Seconds())
	return code
}

func firstLine(s, contains string) string {
	for _, l := range strings.Split(s, "\n") {
		if strings.Contains(l, contains) {
			return strings.TrimSpace(l)
		}
	}
	return ""
}

// reportSoloRace: one library call by one caller raced - with goroutines the
// library itself started. That is a violation of C15 without any scheduling.
func reportSoloRace(b *Build, bin string, envf func(string) []string, cfg, poolFile string, seed uint64, sr *soloRace, spec propSpec, tier string, start time.Time) int {
	raw, _ := os.ReadFile(poolFile)
	var ops []json.RawMessage
	json.Unmarshal(raw, &ops)
	dir := filepath.Join(verifDir(), "replays")
	os.MkdirAll(dir, 0o755)
	path := filepath.Join(dir, fmt.Sprintf("C15-%d-%s-solo-op%d.json", seed, cfg, sr.idx))
	rec := map[string]interface{}{"t": "violation", "prop": "C15", "check_id": "conc-race", "engine": "conc", "config": cfg, "seed": seed, "worker": -1, "index": sr.idx,
		"msg":         "data race inside a single library call (between goroutines the library started itself): " + raceSites(sr.report),
		"race_report": normaliseRace(sr.report), "replay_cmd": "./check.sh replay " + path,
		"episode": map[string]interface{}{"idx": 0, "family": "seq", "sseed": "1", "clients": [][]int{{sr.idx}}, "ops": map[string]interface{}{fmt.Sprint(sr.idx): ops[sr.idx]}}}
	writeJSON(path, rec)
	known := loadKnown()
	if k := known.match(rec); k != nil {
		fmt.Printf("KNOWN-FINDING: property=C15 %s\n", k.What)
		return exitOK
	}
	fmt.Printf("VIOLATION property=C15 replay=%s\n  check=conc-race config=%s: %v\n", path, cfg, rec["msg"])
	ev := newAgg().evidenceConc(tier, seed, spec, []string{cfg}, b, len(ops), time.Since(start).Seconds())
	ev["violations"] = 1
	cov := ev["coverage"].(map[string]interface{})
	cov["evaluations"], cov["distinct_nontrivial"] = sr.idx+1, 2
	cov["samples"] = []interface{}{rec["episode"]}
	cov["note"] = "the run ended while computing solo references: a single call raced with goroutines started by the library itself"
	writeEvidence("C15", ev)
	return exitViol
}

// concDeterminism runs the first n episodes of worker 0 `runs` times under
// different GOMAXPROCS and compares the traces line by line.
func concDeterminism(b *Build, bin, poolFile, refFile string, seed uint64, n, runs int) error {
	trace := func(i int, gmp string) (string, bool) {
		pfx := filepath.Join(b.Scratch, fmt.Sprintf("det-%d-%s", i, gmp))
		env := raceEnv(pfx)
		if gmp != "" {
			env = append(env, "GOMAXPROCS="+gmp)
		}
		r := runWorker(bin, []string{"conc", "-seed", fmt.Sprint(seed), "-worker", "0", "-pool", poolFile, "-ref", refFile, "-from", "0", "-to", fmt.Sprint(n), "-trace"}, env, 10*time.Minute)
		if r.exit != 0 {
			return "", false // a verdict, not a determinism problem: let the main run report it
		}
		var tr []string
		for _, l := range strings.Split(string(r.stdout), "\n") {
			if strings.Contains(l, `"t":"trace"`) {
				tr = append(tr, l)
			}
		}
		return strings.Join(tr, "\n"), true
	}
	first, ok := trace(0, "1")
	if !ok {
		return nil
	}
	for i := 1; i < runs; i++ {
		gmp := []string{"1", "16", "4"}[i%3]
		s, ok := trace(i, gmp)
		if !ok {
			return nil
		}
		if s == first {
			continue
		}
		// The library itself may consult GOMAXPROCS / NumCPU (a bounded worker
		// pool, say). That is its right; what must hold is that two runs under
		// the SAME setting are identical.
		a, ok1 := trace(1000+i, gmp)
		c, ok2 := trace(2000+i, gmp)
		if !ok1 || !ok2 {
			return nil
		}
		if a != c {
			return fmt.Errorf("two runs with GOMAXPROCS=%s diverged from each other:\n%s\n--- vs ---\n%s", gmp, tail(a, 5), tail(c, 5))
		}
		fmt.Printf("edsim: note: traces differ between GOMAXPROCS=1 and GOMAXPROCS=%s but are identical for equal settings: the library's behaviour depends on GOMAXPROCS\n", gmp)
	}
	return nil
}

// finishConcViolation reproduces the failing episode in a fresh process,
// minimises it and writes a self-contained replay file.
func finishConcViolation(b *Build, bin string, envf func(string) []string, family, poolFile, refFile string, seed uint64, v concViolation, tier string, npool int) string {
	dir := filepath.Join(verifDir(), "replays")
	os.MkdirAll(dir, 0o755)
	path := filepath.Join(dir, fmt.Sprintf("C15-%d-%s-w%d-e%d.json", seed, v.cfg, v.worker, v.idx))
	rec := v.rec
	rec["replay_cmd"] = "./check.sh replay " + path
	base := []string{"conc", "-config", v.cfg, "-seed", fmt.Sprint(seed), "-worker", fmt.Sprint(v.worker), "-pool", poolFile, "-ref", refFile}
	if family != "" {
		base = append(base, "-family", family)
	}
	// the explicit episode
	dumpArgs := append(append([]string{}, base...), "-from", fmt.Sprint(v.idx), "-dumpep")
	if v.fu >= 0 && v.idx == v.from {
		dumpArgs = append(dumpArgs, "-firstuse", fmt.Sprint(v.fu))
	}
	d := runWorker(bin, dumpArgs, nil, 5*time.Minute)
	for _, l := range strings.Split(string(d.stdout), "\n") {
		if m := decodeObj([]byte(l)); m != nil && m["t"] == "episode" {
			rec["episode"] = m["episode"]
		}
	}
	writeJSON(path, rec)
	if rec["episode"] == nil {
		rec["note"] = "could not dump the episode"
		writeJSON(path, rec)
		return path
	}
	ok, _ := replayEpisodeFile(b, bin, envf, path, v.checkID)
	if !ok {
		// try with the process history of the worker
		pfx := filepath.Join(b.Scratch, "hist")
		hargs := append(append([]string{}, base...), "-from", fmt.Sprint(v.from), "-to", fmt.Sprint(v.idx+1))
		if v.fu >= 0 {
			hargs = append(hargs, "-firstuse", fmt.Sprint(v.fu))
		}
		r := runWorker(bin, hargs, envf(pfx), 30*time.Minute)
		if r.exit == 66 || r.exit == 1 {
			rec["history"] = v.idx - v.from
			rec["history_from"] = v.from
			rec["history_firstuse"] = v.fu
			rec["pool_n"] = npool
			rec["family"] = family
			rec["note"] = "fails only after the preceding episodes of the same worker ran in the same process (process history); replay re-runs them"
		} else {
			rec["note"] = "NOT reproducible in a fresh process"
		}
		writeJSON(path, rec)
		return path
	}
	minimiseEpisode(b, bin, envf, path, v.checkID, tier)
	explicitSchedule(b, bin, envf, path, v.checkID, tier)
	return path
}

// explicitSchedule records the schedule the (minimised) episode actually ran
// up to the failure as an explicit list of grants (client, slice in points,
// forced GC), stores it in the replay file and shrinks it: merge neighbouring
// slices of one client, cut the tail, turn bounded slices into "run to the end
// of the call" - each candidate re-executed in a fresh process.
func explicitSchedule(b *Build, bin string, envf func(string) []string, path, checkID, tier string) {
	raw, _ := os.ReadFile(path)
	rec := decodeObj(raw)
	if rec == nil {
		return
	}
	ep, _ := rec["episode"].(map[string]interface{})
	if ep == nil {
		return
	}
	glog := filepath.Join(b.Scratch, "grants.log")
	os.Remove(glog)
	if ok, _ := replayEpisodeFileWith(b, bin, envf, path, checkID, []string{"-grantlog", glog}); !ok {
		return
	}
	data, err := os.ReadFile(glog)
	if err != nil {
		return
	}
	type grant struct {
		C  int   `json:"c"`
		S  int64 `json:"s"`
		GC bool  `json:"gc,omitempty"`
	}
	var gs []grant
	for _, l := range strings.Split(strings.TrimSpace(string(data)), "\n") {
		var g grant
		var gc int
		if n, _ := fmt.Sscan(l, &g.C, &g.S, &gc); n == 3 {
			g.GC = gc == 1
			gs = append(gs, g)
		}
	}
	if len(gs) == 0 {
		return
	}
	cand := filepath.Join(b.Scratch, "cand-sched.json")
	try := func(c []grant) bool {
		ep["grants"] = c
		writeJSON(cand, rec)
		ok, _ := replayEpisodeFile(b, bin, envf, cand, checkID)
		return ok
	}
	if !try(gs) {
		delete(ep, "grants")
		return
	}
	limit := 60 * time.Second
	if tier == "thorough" {
		limit = 5 * time.Minute
	}
	deadline := time.Now().Add(limit)
	orig := len(gs)
	// merge neighbours of the same client
	merge := func(in []grant) []grant {
		var out []grant
		for _, g := range in {
			if n := len(out); n > 0 && out[n-1].C == g.C && !g.GC && out[n-1].S > 0 {
				if g.S == 0 {
					out[n-1].S = 0
				} else {
					out[n-1].S += g.S
				}
				continue
			}
			out = append(out, g)
		}
		return out
	}
	if m := merge(gs); len(m) < len(gs) && try(m) {
		gs = m
	}
	// drop forced GCs
	{
		c := append([]grant{}, gs...)
		for i := range c {
			c[i].GC = false
		}
		if try(c) {
			gs = c
		}
	}
	// cut the tail (the list is followed by round-robin to completion)
	for lo, hi := 0, len(gs); lo < hi && time.Now().Before(deadline); {
		mid := (lo + hi) / 2
		if try(gs[:mid]) {
			hi = mid
			gs = gs[:mid]
		} else {
			lo = mid + 1
		}
	}
	// remove preemptions one by one: let a client run to the end of its call
	for i := 0; i < len(gs) && time.Now().Before(deadline); i++ {
		if gs[i].S == 0 {
			continue
		}
		c := append([]grant{}, gs...)
		c[i].S = 0
		if try(c) {
			gs = merge(c)
			i = -1
		}
	}
	ep["grants"] = gs
	rec["schedule_note"] = fmt.Sprintf("explicit schedule: %d grants (recorded run: %d); a grant is (client, slice in instrumentation points, 0 = until the call ends); after the list the remaining clients run round-robin to completion", len(gs), orig)
	writeJSON(path, rec)
	if ok, _ := replayEpisodeFile(b, bin, envf, path, checkID); !ok {
		delete(ep, "grants")
		delete(rec, "schedule_note")
		writeJSON(path, rec)
	}
}

// replayEpisodeFile runs the self-contained episode of a replay file in a
// fresh process (computing the solo references of its ops first) and reports
// whether the same check fails again.
func replayEpisodeFile(b *Build, bin string, envf func(string) []string, path, checkID string) (bool, string) {
	return replayEpisodeFileWith(b, bin, envf, path, checkID, nil)
}

func replayEpisodeFileWith(b *Build, bin string, envf func(string) []string, path, checkID string, extra []string) (bool, string) {
	tmp, _ := os.MkdirTemp(b.Scratch, "rp-")
	dense := filepath.Join(tmp, "pool.json")
	r := runWorker(bin, []string{"conc", "-case", path}, nil, 5*time.Minute)
	if r.exit != 0 || len(r.stdout) == 0 {
		return false, "cannot extract ops: " + tail(r.stderr, 5)
	}
	os.WriteFile(dense, r.stdout, 0o644)
	var ops []interface{}
	json.Unmarshal(r.stdout, &ops)
	refs := filepath.Join(tmp, "refs.json")
	if err := soloRefs(bin, dense, len(ops), refs, envf(filepath.Join(tmp, "solo"))); err != nil {
		if sr, ok := err.(*soloRace); ok && checkID == "conc-race" {
			return true, sr.report
		}
		return false, err.Error()
	}
	pfx := filepath.Join(tmp, "race")
	r = runWorker(bin, append([]string{"conc", "-case", path, "-ref", refs}, extra...), envf(pfx), 20*time.Minute)
	rep := readRaceLog(pfx)
	switch {
	case (r.exit == 66 || rep != "") && checkID == "conc-race":
		return true, rep
	case r.exit == 1 && len(r.viols) > 0 && fmt.Sprint(r.viols[0]["check_id"]) == checkID:
		return true, fmt.Sprint(r.viols[0]["msg"])
	case strings.Contains(r.stderr, "fatal error: concurrent map") && checkID == "conc-race-fatal":
		return true, firstLine(r.stderr, "fatal error")
	}
	return false, ""
}

// minimiseEpisode: drop clients, then single operations, while the same check
// keeps failing in a fresh process.
func minimiseEpisode(b *Build, bin string, envf func(string) []string, path, checkID, tier string) {
	limit := 60 * time.Second
	if tier == "thorough" {
		limit = 10 * time.Minute
	}
	deadline := time.Now().Add(limit)
	raw, _ := os.ReadFile(path)
	rec := decodeObj(raw)
	if rec == nil {
		return
	}
	ep, _ := rec["episode"].(map[string]interface{})
	if ep == nil {
		return
	}
	getClients := func() [][]interface{} {
		var out [][]interface{}
		cl, _ := ep["clients"].([]interface{})
		for _, c := range cl {
			l, _ := c.([]interface{})
			out = append(out, l)
		}
		return out
	}
	setClients := func(c [][]interface{}) {
		var l []interface{}
		for _, x := range c {
			if x == nil {
				x = []interface{}{}
			}
			l = append(l, x)
		}
		ep["clients"] = l
	}
	cand := filepath.Join(b.Scratch, "cand.json")
	try := func(c [][]interface{}) bool {
		if time.Now().After(deadline) {
			return false
		}
		old := getClients()
		setClients(c)
		delete(ep, "grants")
		writeJSON(cand, rec)
		ok, _ := replayEpisodeFile(b, bin, envf, cand, checkID)
		if !ok {
			setClients(old)
		}
		return ok
	}
	changed := true
	steps := 0
	for changed && time.Now().Before(deadline) {
		changed = false
		cl := getClients()
		for i := 0; i < len(cl) && len(cl) > 1; i++ {
			c2 := append(append([][]interface{}{}, cl[:i]...), cl[i+1:]...)
			if try(c2) {
				changed = true
				steps++
				break
			}
		}
		if changed {
			continue
		}
		cl = getClients()
	outer:
		for i := range cl {
			for j := range cl[i] {
				if len(cl[i]) <= 1 {
					continue
				}
				c2 := make([][]interface{}, len(cl))
				for k := range cl {
					c2[k] = append([]interface{}{}, cl[k]...)
				}
				c2[i] = append(c2[i][:j], c2[i][j+1:]...)
				if try(c2) {
					changed = true
					steps++
					break outer
				}
			}
		}
	}
	if steps > 0 {
		rec["minimised"] = true
		rec["minimisation_steps"] = steps
		writeJSON(path, rec)
	}
}
