package main

import (
	"encoding/json"
	"fmt"
	"os"
	"strconv"
	"strings"
	"time"
)

const (
	exitOK   = 0
	exitViol = 1
	exitInfr = 2
)

func infraf(format string, a ...interface{}) {
	fmt.Fprintf(os.Stderr, "edsim: INFRASTRUCTURE: "+format+"\n", a...)
	os.Exit(exitInfr)
}

func usage() {
	fmt.Fprintln(os.Stderr, `usage:
  edsim check <property> <quick|thorough>   run the check of one property against /repo's working tree
  edsim replay <file>                       re-execute a replay file against /repo's working tree
  edsim selftest <determinism|canary>       self-checks of the machinery
  edsim instrument <dir>                    instrument a tree in place (debugging aid)`)
	os.Exit(exitInfr)
}

func envSeed(def uint64) uint64 {
	if s := os.Getenv("VERIF_SEED"); s != "" {
		if v, err := strconv.ParseUint(strings.TrimSpace(s), 10, 64); err == nil {
			return v
		}
		if v, err := strconv.ParseInt(strings.TrimSpace(s), 10, 64); err == nil {
			return uint64(v)
		}
	}
	return def
}

func main() {
	if len(os.Args) < 2 {
		usage()
	}
	switch os.Args[1] {
	case "instrument":
		if len(os.Args) < 3 {
			usage()
		}
		n, f, err := instrumentTree(os.Args[2])
		if err != nil {
			infraf("%v", err)
		}
		fmt.Printf("instrumented %d points in %d files\n", n, f)
	case "check":
		if len(os.Args) < 4 {
			usage()
		}
		tier := os.Args[3]
		if t := os.Getenv("VERIF_TIER"); t == "quick" || t == "thorough" {
			tier = t
		}
		if tier != "quick" && tier != "thorough" {
			usage()
		}
		os.Exit(runCheck(os.Args[2], tier))
	case "replay":
		if len(os.Args) < 3 {
			usage()
		}
		os.Exit(runReplay(os.Args[2]))
	case "selftest":
		if len(os.Args) < 3 {
			usage()
		}
		os.Exit(runSelftest(os.Args[2], os.Args[3:]))
	default:
		usage()
	}
}

type propSpec struct {
	engine string // "io" | "conc"
	level  string
	enum   bool
	quickS int // seconds of random exploration per worker, quick tier
	thorS  int
}

var props = map[string]propSpec{
	"C14": {"io", "fault_enumeration", true, 12, 240},
	"C06": {"io", "exploration", true, 40, 1200},
	"C17": {"io", "exploration", false, 40, 1200},
	"C13": {"io", "exploration", true, 25, 600},
	"C02": {"io", "exploration", true, 20, 600},
	"C15": {"conc", "exploration", false, 75, 1500},
}

func runCheck(prop, tier string) int {
	spec, ok := props[prop]
	if !ok {
		infraf("property %s has no check (not applicable to this technique or unknown)", prop)
	}
	start := time.Now()
	seed := envSeed(map[string]uint64{"quick": 20261002, "thorough": 7}[tier])
	fmt.Printf("edsim: property=%s tier=%s seed=%d engine=%s repo=%s\n", prop, tier, seed, spec.engine, repoDir())
	if spec.engine == "io" {
		return checkIO(prop, tier, seed, spec, start)
	}
	return checkConc(prop, tier, seed, spec, start)
}

func writeJSON(path string, v interface{}) error {
	b, err := json.MarshalIndent(v, "", " ")
	if err != nil {
		return err
	}
	return os.WriteFile(path, append(b, '\n'), 0o644)
}
