package main

import (
	"fmt"
	"io"
	"os"
	"os/exec"
	"path/filepath"
	"strings"
	"sync"
	"time"
)

type Config struct {
	Name   string
	Tags   string
	GoArch string
}

var allConfigs = []Config{
	{"default", "verif", ""},
	{"noasm", "verif,noasm", ""},
	{"force32bit", "verif,force32bit", ""},
	{"appengine", "verif,appengine", ""},
	{"force32bit_appengine", "verif,force32bit,appengine", ""},
	{"386", "verif", "386"},
}

func configByName(n string) (Config, bool) {
	for _, c := range allConfigs {
		if c.Name == n {
			return c, true
		}
	}
	return Config{}, false
}

type Build struct {
	Scratch string
	Bins    map[string]string // config name (+"-race") -> binary
	Points  int
	Files   int
	BuildS  float64
}

func verifDir() string {
	if d := os.Getenv("VERIF_DIR"); d != "" {
		return d
	}
	return "/verif"
}

func repoDir() string {
	if d := os.Getenv("VERIF_REPO"); d != "" {
		return d
	}
	return "/repo"
}

func goEnv(extra ...string) []string {
	env := os.Environ()
	env = append(env, "GOFLAGS=-mod=mod", "GOPROXY=off", "GOSUMDB=off", "GOTOOLCHAIN=local")
	return append(env, extra...)
}

func copyTree(src, dst string, skip func(rel string, info os.FileInfo) bool) error {
	return filepath.Walk(src, func(p string, info os.FileInfo, err error) error {
		if err != nil {
			return err
		}
		rel, _ := filepath.Rel(src, p)
		if rel != "." && skip != nil && skip(rel, info) {
			if info.IsDir() {
				return filepath.SkipDir
			}
			return nil
		}
		t := filepath.Join(dst, rel)
		if info.IsDir() {
			return os.MkdirAll(t, 0o755)
		}
		if !info.Mode().IsRegular() {
			return nil
		}
		in, err := os.Open(p)
		if err != nil {
			return err
		}
		defer in.Close()
		out, err := os.Create(t)
		if err != nil {
			return err
		}
		if _, err := io.Copy(out, in); err != nil {
			out.Close()
			return err
		}
		return out.Close()
	})
}

// prepareBuild copies /repo's current working tree to a scratch directory,
// instruments it, and builds the worker for every requested configuration.
func prepareBuild(configs []Config, race []bool) (*Build, error) {
	t0 := time.Now()
	scratch, err := os.MkdirTemp("", "edsim-")
	if err != nil {
		return nil, err
	}
	b := &Build{Scratch: scratch, Bins: map[string]string{}}
	lib := filepath.Join(scratch, "lib")
	if err := copyTree(repoDir(), lib, func(rel string, info os.FileInfo) bool {
		base := filepath.Base(rel)
		return base == ".git" || (info.IsDir() && base == "zzsimrt")
	}); err != nil {
		return b, fmt.Errorf("copy repo: %v", err)
	}
	if err := copyTree(filepath.Join(verifDir(), "zzsimrt"), filepath.Join(lib, "zzsimrt"), nil); err != nil {
		return b, fmt.Errorf("copy runtime: %v", err)
	}
	b.Points, b.Files, err = instrumentTree(lib)
	if err != nil {
		return b, err
	}
	h := filepath.Join(scratch, "harness")
	if err := copyTree(filepath.Join(verifDir(), "harness"), h, nil); err != nil {
		return b, fmt.Errorf("copy harness: %v", err)
	}
	gomod := "module edharness\n\ngo 1.23\n\nrequire github.com/oasisprotocol/ed25519 v0.0.0\n\nreplace github.com/oasisprotocol/ed25519 => ../lib\n"
	if err := os.WriteFile(filepath.Join(h, "go.mod"), []byte(gomod), 0o644); err != nil {
		return b, err
	}
	if sum, err := os.ReadFile(filepath.Join(repoDir(), "go.sum")); err == nil {
		os.WriteFile(filepath.Join(h, "go.sum"), sum, 0o644)
	}
	os.MkdirAll(filepath.Join(scratch, "bin"), 0o755)
	type job struct {
		cfg  Config
		race bool
	}
	var jobs []job
	for i, c := range configs {
		jobs = append(jobs, job{c, race[i]})
	}
	// first job alone (populates the module/ std cache), the rest in parallel
	var mu sync.Mutex
	var firstErr error
	build := func(j job) {
		name := j.cfg.Name
		args := []string{"build", "-trimpath", "-tags", j.cfg.Tags}
		var env []string
		if j.race {
			name += "-race"
			args = append(args, "-race")
		}
		if j.cfg.GoArch != "" {
			env = append(env, "GOARCH="+j.cfg.GoArch, "CGO_ENABLED=0")
		}
		bin := filepath.Join(scratch, "bin", "worker-"+name)
		args = append(args, "-o", bin, ".")
		cmd := exec.Command("go", args...)
		cmd.Dir = h
		cmd.Env = goEnv(env...)
		out, err := cmd.CombinedOutput()
		mu.Lock()
		defer mu.Unlock()
		if err != nil {
			if firstErr == nil {
				firstErr = fmt.Errorf("build %s failed: %v\n%s", name, err, tail(string(out), 40))
			}
			return
		}
		b.Bins[name] = bin
	}
	if len(jobs) > 0 {
		build(jobs[0])
	}
	var wg sync.WaitGroup
	sem := make(chan struct{}, 6)
	for _, j := range jobs[min(1, len(jobs)):] {
		wg.Add(1)
		go func(j job) {
			defer wg.Done()
			sem <- struct{}{}
			build(j)
			<-sem
		}(j)
	}
	wg.Wait()
	b.BuildS = time.Since(t0).Seconds()
	return b, firstErr
}

func (b *Build) Cleanup() {
	if b != nil && b.Scratch != "" && os.Getenv("VERIF_KEEP") == "" {
		os.RemoveAll(b.Scratch)
	}
}

func tail(s string, n int) string {
	lines := strings.Split(strings.TrimRight(s, "\n"), "\n")
	if len(lines) > n {
		lines = lines[len(lines)-n:]
	}
	return strings.Join(lines, "\n")
}
