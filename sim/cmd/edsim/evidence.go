package main

import (
	"bytes"
	"encoding/json"
	"fmt"
	"os"
	"path/filepath"
	"sort"
	"strings"
)

type agg struct {
	cases, enum, enumTotal, nontriv, libCalls int
	enumDone                                  bool
	points                                    int64
	sigs, ntSigs                              map[string]bool
	fired, probes, notes                      map[string]int
	samples                                   []interface{}
	perConfig                                 map[string]int
	wall                                      float64
	// conc
	episodes, calls, switches, preempt, blocked, gcs, concurrent int
	spawned, leaked                                              int
	simNs, simJumps                                              int64
	families, overlap, fnCalls                                   map[string]int
	schedSigs                                                    map[string]bool
}

func newAgg() *agg {
	return &agg{sigs: map[string]bool{}, ntSigs: map[string]bool{}, fired: map[string]int{}, probes: map[string]int{}, notes: map[string]int{},
		perConfig: map[string]int{}, enumDone: true, families: map[string]int{}, overlap: map[string]int{}, fnCalls: map[string]int{}, schedSigs: map[string]bool{}}
}

func num(m map[string]interface{}, k string) float64 {
	switch v := m[k].(type) {
	case float64:
		return v
	case json.Number:
		f, _ := v.Float64()
		return f
	}
	return 0
}

// decodeObj parses one JSON object keeping numbers exact (64-bit seeds must
// survive a round trip through the orchestrator).
func decodeObj(b []byte) map[string]interface{} {
	d := json.NewDecoder(bytes.NewReader(b))
	d.UseNumber()
	var m map[string]interface{}
	if d.Decode(&m) != nil {
		return nil
	}
	return m
}

func addMap(dst map[string]int, src interface{}) {
	m, _ := src.(map[string]interface{})
	for k, v := range m {
		switch f := v.(type) {
		case float64:
			dst[k] += int(f)
		case json.Number:
			n, _ := f.Int64()
			dst[k] += int(n)
		}
	}
}

func (a *agg) addIO(s map[string]interface{}) {
	a.cases += int(num(s, "cases"))
	a.enum += int(num(s, "enum"))
	if t := int(num(s, "enum_total")); t > a.enumTotal {
		a.enumTotal = t
	}
	if d, ok := s["enum_done"].(bool); ok && !d && num(s, "enum_total") > 0 {
		a.enumDone = false
	}
	a.nontriv += int(num(s, "nontrivial"))
	a.libCalls += int(num(s, "lib_calls"))
	a.points += int64(num(s, "points"))
	if l, ok := s["sigs"].([]interface{}); ok {
		for _, x := range l {
			a.sigs[fmt.Sprint(x)] = true
		}
	}
	if l, ok := s["nt_sigs"].([]interface{}); ok {
		for _, x := range l {
			a.ntSigs[fmt.Sprint(x)] = true
		}
	}
	addMap(a.fired, s["fired"])
	addMap(a.probes, s["probes"])
	addMap(a.notes, s["notes"])
	if l, ok := s["samples"].([]interface{}); ok && len(a.samples) < 3 {
		for _, x := range l {
			if len(a.samples) < 3 {
				a.samples = append(a.samples, x)
			}
		}
	}
	a.perConfig[fmt.Sprint(s["config"])] += int(num(s, "cases"))
	a.simNs += int64(num(s, "sim_ns"))
	a.simJumps += int64(num(s, "sim_jumps"))
	if w := num(s, "wall_s"); w > a.wall {
		a.wall = w
	}
}

var ioRules = map[string]string{
	"C14": "Cases are GenerateKey calls against the simulated entropy device under a fault plan (fragmentation, stalls, failure offset x kind {EOF, unexpected EOF, private error, EAGAIN, EINTR, deadline} x with/without data x sticky/recovering, nil reader = swapped crypto/rand.Reader) and accessor scripts (Public/Seed/Equal/scribble/regenerate) checked step by step against a model key. The enumerated part covers the complete fault space of one 32-byte ReadFull over a fixed fragmentation family. Signature = (nil reader, failure offset, kind, with-data, fragmentation shape) or the accessor step string; non-trivial = a device fault fired, the nil-reader path was taken, or the script has >= 3 steps.",
	"C06": "Cases are VerifyBatch calls (sizes 0..200/300, every kind of damaged entry at biased positions, one damaged entry repeated at the heads of later chunks, all option sets incl. one long-lived Options value re-targeted between calls, cancelling pairs, torsion, mixed-order and ZIP-215-only entries, boundary-scalar batches) against the simulated entropy device (fragmentation, stalls, failures, degenerate content only for all-valid batches); oracle = the library's single verifier per entry. The enumerated part fails the device at every measured read boundary of a ladder of batch shapes. Signature = (size class, fallback-chunk count, bad-position classes, option class, fault-plan shape, nil reader, error); non-trivial = batch of >= 4 entries (reaches the batch equation).",
	"C17": "Same simulated VerifyBatch executions as C06, judged by the guarded fallback hook: no fallback range may consist only of individually valid entries, under any entropy content that does not fail (uniform, zero, ones, equal randomisers, sparse, ramp, one bit, small, all-one randomisers) and any fragmentation; one case in five is a boundary-scalar batch (ZIP-215-valid entries with prescribed scalar halves whose running sum crosses carry/borrow boundaries of the modular reduction, randomisers all 1). Signature as C06; non-trivial = batch of >= 4 entries.",
	"C13": "Cases are single calls with generated argument shapes (nil/short/long keys, signatures, seeds, digests; all hash selectors; contexts 0..1000 bytes; aliased buffers) and VerifyBatch calls with malformed entries, skewed counts and failing devices; every argument lives in canary-filled, read-only mmap pages with 80 bytes of spare capacity (a write faults at the writing instruction) and is hashed before and after. Signature = (function, length overrides, option class, aliasing, entry kind, outcome class); non-trivial = some argument deviates from the well-formed shape or a device plan is attached.",
	"C02": "Cases are signing calls (pure/ctx/ph, three ways of passing options, message lengths around SHA-512 block borders, special seeds) executed under a tripwire device, a failing device, a nil reader (swapped crypto/rand.Reader) and again, compared with each other and with crypto/ed25519 of the toolchain; plus GenerateKey against the reference derivation. Signature = (function, hash, context length, option form, message length, seed kind, refused); every case is non-trivial.",
}

func sortedKeys(m map[string]bool) []string {
	var l []string
	for k := range m {
		l = append(l, k)
	}
	sort.Strings(l)
	return l
}

func (a *agg) evidenceIO(prop, tier string, seed uint64, spec propSpec, cfgs []Config, b *Build, wall float64) map[string]interface{} {
	var cn []string
	for _, c := range cfgs {
		cn = append(cn, c.Name)
	}
	perHour := 0.0
	if a.wall > 0 {
		perHour = float64(a.cases) / a.wall * 3600
	}
	cov := map[string]interface{}{
		"evaluations":                a.cases,
		"distinct_nontrivial":        len(a.ntSigs),
		"distinct_signatures":        len(a.sigs),
		"nontrivial_evaluations":     a.nontriv,
		"rule":                       ioRules[prop],
		"samples":                    a.samples,
		"enumerated":                 a.enum,
		"enumeration_size_per_build": a.enumTotal,
		"exhaustive":                 false,
		"library_calls":              a.libCalls,
		"simulated_steps":            a.points,
		"simulated_time_note":        "the pinned library has no clock: progress is counted in logical steps (instrumentation points executed inside library calls); slow reads of the entropy device advance a discrete-event clock that a changed tree's timers and sleeps would run on",
		"simulated_clock_seconds":    float64(a.simNs) / 1e9,
		"simulated_clock_jumps":      a.simJumps,
		"cases_per_hour":             int(perHour),
		"fault_kinds_fired":          a.fired,
		"probes_hit":                 a.probes,
		"configurations":             cn,
		"cases_per_configuration":    a.perConfig,
		"instrumentation_points":     b.Points,
		"real_vs_stub": map[string]interface{}{
			"real": []string{"ed25519, extra/x25519, internal/* of /repo's working tree (instrumented copy)", "crypto/sha512", "golang.org/x/crypto/curve25519", "Go runtime, allocator, GC"},
			"stub": []string{"every io.Reader argument and crypto/rand.Reader -> simulated entropy device"},
		},
	}
	if spec.enum && a.enumTotal > 0 {
		cov["enumeration_complete"] = a.enumDone && a.enum >= a.enumTotal*5 // the five amd64 tag sets (quick) or all six configurations (thorough)
		cov["exhaustive_note"] = "exhaustive only for the enumerated fault sub-space (see rule); the random part samples"
	}
	return map[string]interface{}{
		"property_id": prop,
		"tier":        tier,
		"seed":        seed,
		"level":       spec.level,
		"coverage":    cov,
		"assumptions": []string{
			"the instrumented scratch copy behaves like /repo's working tree (only calls to a counting function are inserted; line numbers preserved)",
			"the simulated device honours the io.Reader contract; callers that break it are out of scope",
			"the run samples the case space from VERIF_SEED; a clean run is evidence, not proof",
		},
		"wall_s":     wall,
		"violations": 0,
	}
}

// vacuityIO refuses to report success for a run that never exercised the
// property's mechanism.
func (a *agg) vacuityIO(prop string, spec propSpec) error {
	need := map[string][]string{
		"C14": {"genkey-success", "genkey-error"},
		"C06": {"all-valid-batch", "multi-chunk", "fallback-taken", "mixed-batch", "batch-error"},
		"C17": {"all-valid-batch", "multi-chunk", "fallback-taken"},
		"C13": {"documented-panic", "batch-error"},
		"C02": {"refused-by-reference"},
	}
	for _, p := range need[prop] {
		if a.probes[p] == 0 {
			return fmt.Errorf("probe %q was never hit in %d cases", p, a.cases)
		}
	}
	if a.cases == 0 || len(a.ntSigs) < 2 {
		return fmt.Errorf("only %d cases / %d non-trivial signatures", a.cases, len(a.ntSigs))
	}
	return nil
}

// ---------------------------------------------------------------- known findings

type knownFinding struct {
	Property string `json:"property"`
	CheckID  string `json:"check_id"`
	Contains string `json:"contains"`
	What     string `json:"what"`
	Status   string `json:"status"` // "open" suppresses; "fixed" never does
}

type knownFile struct {
	Findings []knownFinding `json:"findings"`
}

func loadKnown() *knownFile {
	k := &knownFile{}
	b, err := os.ReadFile(filepath.Join(verifDir(), "known_findings.json"))
	if err == nil {
		json.Unmarshal(b, k)
	}
	return k
}

func (k *knownFile) match(v map[string]interface{}) *knownFinding {
	for i := range k.Findings {
		f := &k.Findings[i]
		if f.Status != "open" || f.Property != fmt.Sprint(v["prop"]) || f.CheckID != fmt.Sprint(v["check_id"]) {
			continue
		}
		blob, _ := json.Marshal(v)
		if f.Contains == "" || strings.Contains(string(blob), f.Contains) {
			return f
		}
	}
	return nil
}

// ---------------------------------------------------------------- conc evidence

func (a *agg) addConc(s map[string]interface{}) {
	a.episodes += int(num(s, "episodes"))
	a.calls += int(num(s, "calls"))
	a.points += int64(num(s, "points"))
	a.switches += int(num(s, "switches"))
	a.preempt += int(num(s, "preemptions_inside_op"))
	a.blocked += int(num(s, "blocked_yields"))
	a.gcs += int(num(s, "forced_gcs"))
	a.spawned += int(num(s, "library_goroutines"))
	a.leaked += int(num(s, "leaked_library_goroutines"))
	a.concurrent += int(num(s, "episodes_with_overlap"))
	addMap(a.families, s["families"])
	addMap(a.overlap, s["overlap"])
	addMap(a.fnCalls, s["fn_calls"])
	addMap(a.fired, s["fired"])
	if l, ok := s["sched_sigs"].([]interface{}); ok {
		for _, x := range l {
			a.schedSigs[fmt.Sprint(x)] = true
		}
	}
	if l, ok := s["samples"].([]interface{}); ok {
		for _, x := range l {
			if len(a.samples) < 2 {
				a.samples = append(a.samples, x)
			}
		}
	}
	a.perConfig[fmt.Sprint(s["config"])] += int(num(s, "episodes"))
	a.simNs += int64(num(s, "sim_ns"))
	a.simJumps += int64(num(s, "sim_jumps"))
	if w := num(s, "wall_s"); w > a.wall {
		a.wall = w
	}
}

func (a *agg) evidenceConc(tier string, seed uint64, spec propSpec, cfgs []string, b *Build, npool int, wall float64) map[string]interface{} {
	perHour := 0.0
	if a.wall > 0 {
		perHour = float64(a.episodes) / a.wall * 3600
	}
	a.fired["forced_gc"] = a.gcs
	a.fired["preemption_inside_operation"] = a.preempt
	cov := map[string]interface{}{
		"evaluations":                       a.episodes,
		"distinct_nontrivial":               len(a.schedSigs),
		"rule":                              "An evaluation is one episode: 1..8 simulated caller goroutines, each with a list of real library calls on shared read-only inputs, run one at a time under a seeded scheduler (families: random slices, lockstep twins, PCT priorities, sequential histories) that preempts at instrumented points inside the library; the Go race detector, kept blind to the scheduler, judges the library's own synchronisation, and every outcome is compared with the same call executed alone in a fresh process. A schedule signature is the hash of the ordered (client, function, decile of the call's solo length) at each context switch; distinct_nontrivial counts distinct signatures of episodes in which a client was resumed while another client was inside an unfinished library call.",
		"samples":                           a.samples,
		"episodes_with_overlapping_calls":   a.concurrent,
		"library_calls":                     a.calls,
		"calls_per_function":                a.fnCalls,
		"context_switches":                  a.switches,
		"preemptions_inside_operations":     a.preempt,
		"blocked_yields_on_shim_locks":      a.blocked,
		"goroutines_started_by_the_library": a.spawned,
		"goroutines_leaked_by_the_library":  a.leaked,
		"schedule_families":                 a.families,
		"overlap_matrix":                    a.overlap,
		"simulated_steps":                   a.points,
		"simulated_time_note":               "the pinned library has no clock: progress is counted in logical steps; slow reads of the entropy device advance a discrete-event clock that a changed tree's timers and sleeps would run on",
		"simulated_clock_seconds":           float64(a.simNs) / 1e9,
		"simulated_clock_jumps":             a.simJumps,
		"episodes_per_hour":                 int(perHour),
		"fault_kinds_fired":                 a.fired,
		"episodes_per_configuration":        a.perConfig,
		"solo_reference_pool":               npool,
		"instrumentation_points":            b.Points,
		"race_detector":                     "Go race detector, GORACE=" + gorace + "; canary (unsynchronised write through the same baton) reported, mutex-protected canary silent",
		"determinism_selftest":              "first episodes of worker 0 executed twice under different GOMAXPROCS: identical traces",
		"real_vs_stub": map[string]interface{}{
			"real": []string{"ed25519, extra/x25519, internal/* of /repo's working tree (instrumented copy, incl. the amd64 assembly selector in the default configuration)", "crypto/sha512", "golang.org/x/crypto/curve25519", "Go runtime, allocator, GC, real OS threads"},
			"stub": []string{"the Go scheduler's choice of which caller runs -> seeded baton", "io.Reader arguments and crypto/rand.Reader -> simulated entropy device", "sync -> shim over the real primitives (inactive unless the tree imports sync)"},
		},
	}
	return map[string]interface{}{
		"property_id": "C15",
		"tier":        tier,
		"seed":        seed,
		"level":       spec.level,
		"coverage":    cov,
		"assumptions": []string{
			"interleavings are explored at the granularity of instrumented points (function entries, loop iterations, statements touching package-level variables); finer interleavings are covered only through the race detector",
			"the race detector cannot see assembly and drops reports whose earlier access has left its history window (mitigated: history_size=7, small slices, lockstep-twin schedules, canary)",
			"a clean run is evidence, not proof",
		},
		"wall_s":     wall,
		"violations": 0,
	}
}

func (a *agg) vacuityConc() error {
	if a.episodes == 0 {
		return fmt.Errorf("no episode ran")
	}
	if a.preempt == 0 {
		return fmt.Errorf("no preemption landed inside an operation")
	}
	if a.concurrent == 0 || len(a.schedSigs) < 2 {
		return fmt.Errorf("no episode had overlapping calls")
	}
	kinds := map[string]bool{}
	for k := range a.overlap {
		p := strings.SplitN(k, "|", 2)
		if len(p) == 2 && p[0] != p[1] {
			kinds[k] = true
		}
	}
	if len(kinds) == 0 {
		return fmt.Errorf("no overlap of two different kinds of calls occurred")
	}
	return nil
}
