package main

import (
	"fmt"
	"go/ast"
	"go/parser"
	"go/token"
	"os"
	"path/filepath"
	"reflect"
	"sort"
	"strings"
)

const rtImport = "github.com/oasisprotocol/ed25519/zzsimrt"
const shimImport = "github.com/oasisprotocol/ed25519/zzsimrt/zzsync"
const timeImport = "github.com/oasisprotocol/ed25519/zzsimrt/zztime"

type unsupportedErr struct{ msg string }

func (e unsupportedErr) Error() string { return e.msg }

type hoist struct {
	a, b, target int
	name         string
}

type insertion struct {
	off  int
	text string
	del  int // bytes of the original to drop at off
}

// instrumentTree rewrites every non-test .go file below root (except the
// simulator runtime itself). It returns the number of points inserted.
func instrumentTree(root string) (points int, files int, err error) {
	pkgDirs := map[string][]string{}
	err = filepath.Walk(root, func(p string, info os.FileInfo, err error) error {
		if err != nil {
			return err
		}
		if info.IsDir() {
			b := info.Name()
			if p != root && (b == "zzsimrt" || b == "testdata" || strings.HasPrefix(b, ".") || strings.HasPrefix(b, "_")) {
				return filepath.SkipDir
			}
			return nil
		}
		if strings.HasSuffix(p, ".go") && !strings.HasSuffix(p, "_test.go") {
			d := filepath.Dir(p)
			pkgDirs[d] = append(pkgDirs[d], p)
		}
		return nil
	})
	if err != nil {
		return 0, 0, err
	}
	dirs := make([]string, 0, len(pkgDirs))
	for d := range pkgDirs {
		dirs = append(dirs, d)
	}
	sort.Strings(dirs)
	for _, d := range dirs {
		fl := pkgDirs[d]
		sort.Strings(fl)
		fset := token.NewFileSet()
		parsed := make([]*ast.File, len(fl))
		srcs := make([][]byte, len(fl))
		pkgVars := map[string]bool{}
		for i, f := range fl {
			src, err := os.ReadFile(f)
			if err != nil {
				return 0, 0, err
			}
			srcs[i] = src
			af, err := parser.ParseFile(fset, f, src, parser.ParseComments)
			if err != nil {
				return 0, 0, fmt.Errorf("parse %s: %v", f, err)
			}
			parsed[i] = af
			for _, decl := range af.Decls {
				gd, ok := decl.(*ast.GenDecl)
				if !ok || gd.Tok != token.VAR {
					continue
				}
				for _, sp := range gd.Specs {
					for _, n := range sp.(*ast.ValueSpec).Names {
						if n.Name != "_" {
							pkgVars[n.Name] = true
						}
					}
				}
			}
		}
		chanNames = map[string]bool{}
		chanFuncs = map[string][]int{}
		for pass := 0; pass < 2; pass++ { // twice: a function declared in a later file is known by then
			for _, af := range parsed {
				collectChanNames(af, chanNames)
			}
		}
		for i, f := range fl {
			n, out, err := instrumentFile(fset, parsed[i], srcs[i], pkgVars)
			if err != nil {
				return 0, 0, fmt.Errorf("%s: %w", f, err)
			}
			if out != nil {
				if err := os.WriteFile(f, out, 0o644); err != nil {
					return 0, 0, err
				}
				files++
			}
			points += n
		}
	}
	return points, files, nil
}

// chanNames: names (variables, parameters, struct fields) that are declared
// with a channel type, or assigned a make(chan ...), somewhere in the package
// being instrumented. The instrumenter has no type information; a `range X`
// whose X is such a name (or a selector ending in one) is taken to range over
// a channel. (A missed one leaves a real blocking receive in the library: the
// simulation hangs and the watchdog reports infrastructure trouble, never a
// verdict.)
var chanNames = map[string]bool{}

// chanFuncs: functions of the package being instrumented -> positions of their channel-typed results
var chanFuncs = map[string][]int{}

func collectChanNames(af *ast.File, set map[string]bool) {
	isChanType := func(e ast.Expr) bool {
		for {
			switch t := e.(type) {
			case *ast.ParenExpr:
				e = t.X
				continue
			case *ast.ChanType:
				return true
			}
			return false
		}
	}
	isMakeChan := func(e ast.Expr) bool {
		c, ok := e.(*ast.CallExpr)
		if !ok || len(c.Args) == 0 {
			return false
		}
		id, ok := c.Fun.(*ast.Ident)
		return ok && id.Name == "make" && isChanType(c.Args[0])
	}
	nameOf := func(e ast.Expr) string {
		switch t := e.(type) {
		case *ast.Ident:
			return t.Name
		case *ast.SelectorExpr:
			return t.Sel.Name
		}
		return ""
	}
	// functions (and methods, by name) of the package whose i-th result is a channel
	for _, d := range af.Decls {
		fd, ok := d.(*ast.FuncDecl)
		if !ok || fd.Type.Results == nil {
			continue
		}
		pos := 0
		for _, f := range fd.Type.Results.List {
			k := len(f.Names)
			if k == 0 {
				k = 1
			}
			for j := 0; j < k; j++ {
				if isChanType(f.Type) {
					chanFuncs[fd.Name.Name] = append(chanFuncs[fd.Name.Name], pos)
				}
				pos++
			}
		}
	}
	chanResult := func(e ast.Expr, i int) bool {
		c, ok := e.(*ast.CallExpr)
		if !ok {
			return false
		}
		for _, p := range chanFuncs[nameOf(c.Fun)] {
			if p == i {
				return true
			}
		}
		return false
	}
	ast.Inspect(af, func(x ast.Node) bool {
		switch v := x.(type) {
		case *ast.AssignStmt:
			if len(v.Rhs) == 1 && len(v.Lhs) >= 1 {
				for i, l := range v.Lhs {
					if chanResult(v.Rhs[0], i) {
						if n := nameOf(l); n != "" && n != "_" {
							set[n] = true
						}
					}
				}
			}
		}
		return true
	})
	ast.Inspect(af, func(x ast.Node) bool {
		switch v := x.(type) {
		case *ast.ValueSpec:
			for i, n := range v.Names {
				if (v.Type != nil && isChanType(v.Type)) || (i < len(v.Values) && isMakeChan(v.Values[i])) {
					set[n.Name] = true
				}
			}
		case *ast.Field:
			if isChanType(v.Type) {
				for _, n := range v.Names {
					set[n.Name] = true
				}
			}
		case *ast.AssignStmt:
			if len(v.Lhs) == len(v.Rhs) {
				for i, r := range v.Rhs {
					if isMakeChan(r) {
						if n := nameOf(v.Lhs[i]); n != "" && n != "_" {
							set[n] = true
						}
					}
				}
			}
		}
		return true
	})
}

func hasPragma(doc *ast.CommentGroup) bool {
	if doc == nil {
		return false
	}
	for _, c := range doc.List {
		t := c.Text
		if strings.HasPrefix(t, "//go:nosplit") || strings.HasPrefix(t, "//go:norace") ||
			strings.HasPrefix(t, "//go:noescape") || strings.HasPrefix(t, "//go:linkname") ||
			strings.HasPrefix(t, "//go:systemstack") || strings.HasPrefix(t, "//go:nowritebarrier") {
			return true
		}
	}
	return false
}

func instrumentFile(fset *token.FileSet, af *ast.File, src []byte, pkgVars map[string]bool) (int, []byte, error) {
	tf := fset.File(af.Pos())
	off := func(p token.Pos) int { return tf.Offset(p) }
	var ins []insertion
	var hoists []hoist
	selectLabel := map[*ast.SelectStmt]int{}
	rangeLabel := map[*ast.RangeStmt]*ast.LabeledStmt{}
	points := 0
	const call = "zzsimrt.Point(); "

	// top-level var decl objects of this file (for the deprecated but handy
	// ast.Object resolution: identifiers resolved to something that is not a
	// top-level variable are locals shadowing the name).
	topSpecs := map[interface{}]bool{}
	for _, decl := range af.Decls {
		if gd, ok := decl.(*ast.GenDecl); ok && gd.Tok == token.VAR {
			for _, sp := range gd.Specs {
				topSpecs[sp] = true
			}
		}
	}
	mentions := func(n ast.Node) bool {
		found := false
		var skip = map[*ast.Ident]bool{}
		ast.Inspect(n, func(x ast.Node) bool {
			if found {
				return false
			}
			switch v := x.(type) {
			case *ast.SelectorExpr:
				skip[v.Sel] = true
			case *ast.KeyValueExpr:
				if id, ok := v.Key.(*ast.Ident); ok {
					skip[id] = true
				}
			case *ast.FuncLit:
				return false // gets its own points
			case *ast.Ident:
				if skip[v] || !pkgVars[v.Name] {
					return true
				}
				if v.Obj == nil || topSpecs[v.Obj.Decl] {
					found = true
				}
			}
			return true
		})
		return found
	}

	var unsupported error
	note := func(p token.Pos, what string) {
		if os.Getenv("VERIF_INSTRUMENT_LENIENT") != "" {
			return
		}
		if unsupported == nil {
			unsupported = unsupportedErr{fmt.Sprintf("%s: library code now uses %s; the simulator must be extended before it can judge this tree", fset.Position(p), what)}
		}
	}

	// channel operations directly inside a statement (not inside nested
	// function literals or nested blocks, which are visited on their own)
	chanOps := func(st ast.Stmt) {
		var visit func(n ast.Node, top bool)
		visit = func(n ast.Node, top bool) {
			ast.Inspect(n, func(x ast.Node) bool {
				switch v := x.(type) {
				case *ast.FuncLit:
					return false
				case *ast.BlockStmt:
					if !top || x != n {
						return false
					}
				case *ast.SendStmt:
					chText := string(src[off(v.Chan.Pos()):off(v.Chan.End())])
					if ast.Stmt(v) == st {
						// { zzh := WaitSend(ch); ch <- v; AfterSend(zzh) }: a sender on an
						// unbuffered channel hands the baton to its receiver and
						// re-enters the simulation after the real send
						h := fmt.Sprintf("zzh%d", off(st.Pos()))
						ins = append(ins, insertion{off(st.Pos()), "{ " + h + " := zzsimrt.WaitSend(" + chText + "); ", 0})
						ins = append(ins, insertion{off(st.End()), "; zzsimrt.AfterSend(" + h + ") }", 0})
					} else {
						ins = append(ins, insertion{off(st.Pos()), "zzsimrt.AfterSend(zzsimrt.WaitSend(" + chText + ")); ", 0})
					}
					points++
				case *ast.CallExpr:
					if id, ok := v.Fun.(*ast.Ident); ok && id.Name == "close" && id.Obj == nil && len(v.Args) == 1 {
						arg := string(src[off(v.Args[0].Pos()):off(v.Args[0].End())])
						switch s := st.(type) {
						case *ast.ExprStmt:
							if s.X == ast.Expr(v) {
								ins = append(ins, insertion{off(st.Pos()), "zzsimrt.Closing(" + arg + "); ", 0})
								points++
							}
						case *ast.DeferStmt:
							if s.Call == v {
								ins = append(ins, insertion{off(v.Pos()), "func() { zzsimrt.Closing(" + arg + "); close(" + arg + ") }()", off(v.End()) - off(v.Pos())})
								points++
							}
						}
					}
				case *ast.UnaryExpr:
					if v.Op == token.ARROW {
						ins = append(ins, insertion{off(st.Pos()), "zzsimrt.WaitRecv(" + string(src[off(v.X.Pos()):off(v.X.End())]) + "); ", 0})
						points++
					}
				}
				return true
			})
		}
		switch s := st.(type) {
		case *ast.IfStmt:
			// the init statement and the condition are evaluated once, in front
			// of the body: their receives wait in front of the whole statement
			if s.Init != nil {
				visit(s.Init, true)
			}
			visit(s.Cond, true)
		case *ast.SwitchStmt:
			if s.Init != nil {
				visit(s.Init, true)
			}
			if s.Tag != nil {
				visit(s.Tag, true)
			}
		case *ast.TypeSwitchStmt:
			if s.Init != nil {
				visit(s.Init, true)
			}
		case *ast.ForStmt:
			if s.Init != nil {
				visit(s.Init, true)
			}
			for _, part := range []ast.Node{s.Cond, s.Post} {
				if part == nil || reflect.ValueOf(part).IsNil() {
					continue
				}
				ast.Inspect(part, func(x ast.Node) bool {
					switch u := x.(type) {
					case *ast.FuncLit:
						return false
					case *ast.UnaryExpr:
						if u.Op == token.ARROW {
							note(u.Pos(), "a channel receive in the condition or post statement of a for loop")
						}
					case *ast.SendStmt:
						note(u.Pos(), "a channel send in the post statement of a for loop")
					}
					return true
				})
			}
		case *ast.BlockStmt, *ast.RangeStmt, *ast.SelectStmt, *ast.LabeledStmt:
			_ = s // compound statements: their inner simple statements are visited through their own lists
		default:
			visit(st, true)
		}
	}
	// atomic operations are synchronisation operations too: a claim made with
	// Load-then-Store instead of CompareAndSwap is only wrong if somebody else
	// runs between the two. Statements whose own expressions (not nested
	// blocks) call sync/atomic functions or the Load/Store/Add/Swap/
	// CompareAndSwap methods get a SyncPoint in front.
	atomicName := ""
	for _, im := range af.Imports {
		if im.Path.Value == `"sync/atomic"` {
			atomicName = "atomic"
			if im.Name != nil {
				atomicName = im.Name.Name
			}
		}
	}
	atomicOp := func(st ast.Stmt) bool {
		found := false
		var scan func(n ast.Node)
		scan = func(n ast.Node) {
			ast.Inspect(n, func(x ast.Node) bool {
				if found {
					return false
				}
				switch v := x.(type) {
				case *ast.FuncLit, *ast.BlockStmt:
					return x == n
				case *ast.CallExpr:
					if sel, ok := v.Fun.(*ast.SelectorExpr); ok {
						if id, ok := sel.X.(*ast.Ident); ok && atomicName != "" && id.Name == atomicName {
							found = true
						}
						switch sel.Sel.Name {
						case "CompareAndSwap", "Swap":
							found = true
						case "Load", "Store", "Add":
							if atomicName != "" {
								found = true
							}
						}
					}
				}
				return true
			})
		}
		switch s := st.(type) {
		case *ast.IfStmt:
			if s.Init != nil {
				scan(s.Init)
			}
			scan(s.Cond)
		case *ast.ForStmt, *ast.RangeStmt, *ast.SwitchStmt, *ast.TypeSwitchStmt, *ast.SelectStmt, *ast.BlockStmt, *ast.LabeledStmt:
		default:
			scan(st)
		}
		return found
	}
	var doList func(list []ast.Stmt)
	doList = func(list []ast.Stmt) {
		for _, st := range list {
			switch st.(type) {
			case *ast.CaseClause, *ast.CommClause:
				continue
			}
			if atomicOp(st) {
				ins = append(ins, insertion{off(st.Pos()), "zzsimrt.SyncPoint(); ", 0})
				points++
			} else if mentions(st) {
				ins = append(ins, insertion{off(st.Pos()), call, 0})
				points++
			}
			chanOps(st)
		}
	}
	body := func(b *ast.BlockStmt) {
		if b == nil {
			return
		}
		ins = append(ins, insertion{off(b.Lbrace) + 1, " " + call, 0})
		points++
	}

	timeName := ""
	usesZZTime := false
	for _, im := range af.Imports {
		if im.Path.Value == `"time"` {
			timeName = "time"
			if im.Name != nil {
				timeName = im.Name.Name
			}
		}
	}
	syncName := ""
	for _, im := range af.Imports {
		if im.Path.Value == `"sync"` {
			syncName = "sync"
			if im.Name != nil {
				syncName = im.Name.Name
			}
			// replace the path literal, forcing the local name
			if im.Name == nil {
				ins = append(ins, insertion{off(im.Path.Pos()), "sync ", 0})
			}
			ins = append(ins, insertion{off(im.Path.Pos()), `"` + shimImport + `"`, 6})
		}
	}

	for _, decl := range af.Decls {
		fd, ok := decl.(*ast.FuncDecl)
		if !ok || fd.Body == nil {
			continue
		}
		if hasPragma(fd.Doc) {
			continue
		}
		body(fd.Body)
		ast.Inspect(fd.Type, func(x ast.Node) bool {
			if v, ok := x.(*ast.SelectorExpr); ok {
				if id, ok := v.X.(*ast.Ident); ok && timeName != "" && id.Name == timeName && v.Sel.Name == "Timer" {
					ins = append(ins, insertion{off(id.Pos()), "zztime", len(timeName)})
					usesZZTime = true
				}
			}
			return true
		})
		ast.Inspect(fd.Body, func(x ast.Node) bool {
			switch v := x.(type) {
			case *ast.FuncLit:
				body(v.Body)
			case *ast.ForStmt:
				body(v.Body)
			case *ast.RangeStmt:
				body(v.Body)
				xname := ""
				switch t := v.X.(type) {
				case *ast.Ident:
					xname = t.Name
				case *ast.SelectorExpr:
					xname = t.Sel.Name
				}
				if xname != "" && chanNames[xname] {
					// the implicit receives of a range over a channel: wait in
					// front of the loop, at the end of its body and in front of
					// every continue that belongs to it
					wait := "zzsimrt.WaitRecv(" + string(src[off(v.X.Pos()):off(v.X.End())]) + "); "
					target, label := off(v.Pos()), ""
					if ls, ok := rangeLabel[v]; ok {
						target, label = off(ls.Pos()), ls.Label.Name
					}
					ins = append(ins, insertion{target, wait, 0})
					ins = append(ins, insertion{off(v.Body.Rbrace), "; " + wait, 0})
					var walk func(n ast.Node, nested bool)
					walk = func(n ast.Node, nested bool) {
						ast.Inspect(n, func(x ast.Node) bool {
							if x == nil || x == n {
								return true
							}
							switch b := x.(type) {
							case *ast.FuncLit:
								return false
							case *ast.ForStmt:
								walk(b.Body, true)
								return false
							case *ast.RangeStmt:
								walk(b.Body, true)
								return false
							case *ast.BranchStmt:
								if b.Tok == token.CONTINUE && ((b.Label == nil && !nested) || (b.Label != nil && b.Label.Name == label && label != "")) {
									ins = append(ins, insertion{off(b.Pos()), "{ " + wait, 0})
									ins = append(ins, insertion{off(b.End()), " }", 0})
								}
							}
							return true
						})
					}
					walk(v.Body, false)
					points++
				}
			case *ast.BlockStmt:
				doList(v.List)
			case *ast.CaseClause:
				doList(v.Body)
			case *ast.CommClause:
				doList(v.Body)
			case *ast.GoStmt:
				// go f(a, b)  ->  go zzsimrt.GoCallL(f, a, b, zzsimrt.Spawn())
				// (function value and arguments are still evaluated by the
				// parent; the new goroutine becomes a simulated client)
				if v.Call.Ellipsis.IsValid() {
					note(v.Pos(), "a go statement with a variadic spread")
					break
				}
				// (Spawn() comes LAST: if evaluating the function value or an
				// argument panics, as the go statement's operands may, no client
				// id has been reserved for a goroutine that will never start)
				ins = append(ins, insertion{off(v.Call.Fun.Pos()), "zzsimrt.GoCallL(", 0})
				ins = append(ins, insertion{off(v.Call.Lparen), ", ", 1})
				sep := ""
				if len(v.Call.Args) > 0 {
					sep = ", "
					k := off(v.Call.Rparen) - 1
					for k > 0 && (src[k] == ' ' || src[k] == '\t' || src[k] == '\n' || src[k] == '\r') {
						k--
					}
					if src[k] == ',' {
						sep = " "
					}
				}
				ins = append(ins, insertion{off(v.Call.Rparen), sep + "zzsimrt.Spawn()", 0})
				points++
			case *ast.LabeledStmt:
				if sel, ok := v.Stmt.(*ast.SelectStmt); ok {
					selectLabel[sel] = off(v.Pos())
				}
				if rs, ok := v.Stmt.(*ast.RangeStmt); ok {
					rangeLabel[rs] = v
				}
			case *ast.SelectStmt:
				// a select with a default clause never blocks. A blocking one
				// would park the client while it holds the baton, so it is
				// turned into a polling loop:
				//   for { select { <cases>; default: zzsimrt.Blocked(); continue; }; break }
				// (an unlabelled break inside a case still leaves the select, and
				// then the loop; an unlabelled continue would change its target,
				// so that is refused)
				hasDefault := false
				for _, cl := range v.Body.List {
					if cc, ok := cl.(*ast.CommClause); ok && cc.Comm == nil {
						hasDefault = true
					}
				}
				if hasDefault {
					var texts []string
					for _, cl := range v.Body.List {
						cc := cl.(*ast.CommClause)
						var e ast.Expr
						switch c := cc.Comm.(type) {
						case *ast.SendStmt:
							e = c.Chan
						case *ast.ExprStmt:
							if u, ok := c.X.(*ast.UnaryExpr); ok && u.Op == token.ARROW {
								e = u.X
							}
						case *ast.AssignStmt:
							if len(c.Rhs) == 1 {
								if u, ok := c.Rhs[0].(*ast.UnaryExpr); ok && u.Op == token.ARROW {
									e = u.X
								}
							}
						}
						if e != nil {
							if _, isCall := e.(*ast.CallExpr); !isCall {
								texts = append(texts, string(src[off(e.Pos()):off(e.End())]))
							}
						}
					}
					if len(texts) > 0 {
						t := off(v.Pos())
						if lp, ok := selectLabel[v]; ok {
							t = lp
						}
						ins = append(ins, insertion{t, "zzsimrt.SelectCheck(" + strings.Join(texts, ", ") + "); ", 0})
					}
				}
				if !hasDefault {
					var conts []*ast.BranchStmt
					var walk func(n ast.Node, inLoop bool)
					walk = func(n ast.Node, inLoop bool) {
						ast.Inspect(n, func(x ast.Node) bool {
							switch b := x.(type) {
							case *ast.FuncLit:
								return false
							case *ast.ForStmt:
								if x != n {
									walk(b.Body, true)
									return false
								}
							case *ast.RangeStmt:
								if x != n {
									walk(b.Body, true)
									return false
								}
							case *ast.BranchStmt:
								if b.Tok == token.CONTINUE && b.Label == nil && !inLoop {
									conts = append(conts, b)
								}
							}
							return true
						})
					}
					walk(v.Body, false)
					// An unlabelled continue inside a case means the loop AROUND the
					// select; inside the polling loop it would mean the polling loop.
					// It becomes: set a flag, leave the polling loop by its label, and
					// continue from behind it.
					contFlag, contLabel := "", ""
					if len(conts) > 0 {
						contFlag, contLabel = fmt.Sprintf("zzc%d", off(v.Pos())), fmt.Sprintf("zzl%d", off(v.Pos()))
						for _, b := range conts {
							ins = append(ins, insertion{off(b.Pos()), "{ " + contFlag + " = true; break " + contLabel + " }", off(b.End()) - off(b.Pos())})
						}
					}
					// If every case ends by leaving the function, the select is a
					// terminating statement and so must its replacement be (else
					// "missing return"): then the loop needs no break at all.
					allLeave := len(v.Body.List) > 0
					for _, cl := range v.Body.List {
						cc := cl.(*ast.CommClause)
						if len(cc.Body) == 0 {
							allLeave = false
							break
						}
						switch last := cc.Body[len(cc.Body)-1].(type) {
						case *ast.ReturnStmt:
						case *ast.ExprStmt:
							call, ok := last.X.(*ast.CallExpr)
							id, ok2 := (ast.Expr)(nil).(*ast.Ident)
							if ok {
								id, ok2 = call.Fun.(*ast.Ident)
							}
							if !ok || !ok2 || id.Name != "panic" {
								allLeave = false
							}
						default:
							allLeave = false
						}
						ast.Inspect(cc, func(x ast.Node) bool {
							switch b := x.(type) {
							case *ast.FuncLit, *ast.ForStmt, *ast.RangeStmt, *ast.SwitchStmt, *ast.TypeSwitchStmt, *ast.SelectStmt:
								return false
							case *ast.BranchStmt:
								if b.Tok == token.BREAK && b.Label == nil {
									allLeave = false
								}
							}
							return true
						})
					}
					// Go evaluates the channel (and value) expressions of a select
					// exactly once; the polling loop would evaluate them on every
					// round (a `case <-time.After(d)` would never fire: each round
					// arms a new timer). Expressions containing calls or receives
					// are therefore evaluated into temporaries in front of the loop.
					target := off(v.Pos())
					if lp, ok := selectLabel[v]; ok {
						target = lp
					}
					hasCall := func(e ast.Expr) bool {
						found := false
						ast.Inspect(e, func(x ast.Node) bool {
							switch u := x.(type) {
							case *ast.FuncLit:
								return false
							case *ast.CallExpr:
								found = true
							case *ast.UnaryExpr:
								if u.Op == token.ARROW {
									found = true
								}
							}
							return !found
						})
						return found
					}
					var chanTexts []string
					for ci, cl := range v.Body.List {
						cc := cl.(*ast.CommClause)
						var exprs []ast.Expr
						switch c := cc.Comm.(type) {
						case *ast.SendStmt:
							exprs = append(exprs, c.Chan, c.Value)
						case *ast.ExprStmt:
							if u, ok := c.X.(*ast.UnaryExpr); ok && u.Op == token.ARROW {
								exprs = append(exprs, u.X)
							}
						case *ast.AssignStmt:
							if len(c.Rhs) == 1 {
								if u, ok := c.Rhs[0].(*ast.UnaryExpr); ok && u.Op == token.ARROW {
									exprs = append(exprs, u.X)
								}
							}
						}
						for ei, e := range exprs {
							text := string(src[off(e.Pos()):off(e.End())])
							if hasCall(e) {
								text = fmt.Sprintf("zzsel%d_%d_%d", off(v.Pos()), ci, ei)
								hoists = append(hoists, hoist{off(e.Pos()), off(e.End()), target, text})
							}
							if _, isSend := cc.Comm.(*ast.SendStmt); !isSend || ei == 0 {
								chanTexts = append(chanTexts, text)
							}
						}
					}
					if len(chanTexts) > 0 {
						ins = append(ins, insertion{target, "zzsimrt.SelectCheck(" + strings.Join(chanTexts, ", ") + "); ", 0})
					}
					if contFlag != "" {
						ins = append(ins, insertion{target, contFlag + " := false; ", 0})
						ins = append(ins, insertion{off(v.Pos()), contLabel + ": for { ", 0})
					} else {
						ins = append(ins, insertion{off(v.Pos()), "for { ", 0})
					}
					tail := ""
					if contFlag != "" {
						tail = "; if " + contFlag + " { continue }"
					}
					if allLeave {
						ins = append(ins, insertion{off(v.Body.Rbrace), "default: zzsimrt.Blocked(); ", 0})
						ins = append(ins, insertion{off(v.Body.Rbrace) + 1, " }" + tail, 0})
					} else {
						ins = append(ins, insertion{off(v.Body.Rbrace), "default: zzsimrt.Blocked(); continue; ", 0})
						ins = append(ins, insertion{off(v.Body.Rbrace) + 1, "; break }" + tail, 0})
					}
					points++
				}
			case *ast.SelectorExpr:
				if id, ok := v.X.(*ast.Ident); ok && timeName != "" && id.Name == timeName && id.Obj == nil {
					switch v.Sel.Name {
					case "Now", "Since", "Until", "Sleep", "After", "AfterFunc", "NewTimer", "Timer":
						ins = append(ins, insertion{off(id.Pos()), "zztime", len(timeName)})
						usesZZTime = true
					case "Tick", "NewTicker", "Ticker":
						note(v.Pos(), "time."+v.Sel.Name)
					}
				}
				if id, ok := v.X.(*ast.Ident); ok && syncName != "" && id.Name == syncName && id.Obj == nil {
					switch v.Sel.Name {
					case "OnceValue", "OnceValues":
						note(v.Pos(), "sync."+v.Sel.Name)
					}
				}
			}
			return true
		})
	}
	// package-level declarations using unsupported sync types / channels
	for _, decl := range af.Decls {
		gd, ok := decl.(*ast.GenDecl)
		if !ok {
			continue
		}
		ast.Inspect(gd, func(x ast.Node) bool {
			switch v := x.(type) {
			case *ast.FuncLit:
				return false
			case *ast.SelectorExpr:
				if id, ok := v.X.(*ast.Ident); ok && timeName != "" && id.Name == timeName {
					switch v.Sel.Name {
					case "Now", "Since", "Until", "Sleep", "After", "AfterFunc", "NewTimer", "Timer":
						ins = append(ins, insertion{off(id.Pos()), "zztime", len(timeName)})
						usesZZTime = true
					case "Tick", "NewTicker", "Ticker":
						note(v.Pos(), "time."+v.Sel.Name)
					}
				}
				if id, ok := v.X.(*ast.Ident); ok && syncName != "" && id.Name == syncName {
					switch v.Sel.Name {
					case "OnceValues":
						note(v.Pos(), "sync."+v.Sel.Name)
					}
				}
			}
			return true
		})
	}
	if unsupported != nil {
		return 0, nil, unsupported
	}
	if len(ins) == 0 {
		return 0, nil, nil
	}
	if usesZZTime {
		ins = append(ins, insertion{off(af.Name.End()), "; import zztime \"" + timeImport + "\"", 0})
		// whatever is left of the real package's use may be nothing at all
		ins = append(ins, insertion{len(src), "\nvar _ " + timeName + ".Duration\n", 0})
	}
	if points > 0 {
		// import on the same line as the package clause: line numbers of the
		// original source are preserved (race reports and panics then point
		// at real lines of /repo).
		ins = append(ins, insertion{off(af.Name.End()), "; import zzsimrt \"" + rtImport + "\"", 0})
	}
	// hoisted select operands: move the (already rewritten) text of the
	// expression in front of the loop
	for _, h := range hoists {
		var inner, rest []insertion
		for _, in := range ins {
			if in.off >= h.a && in.off+in.del <= h.b && in.off < h.b {
				inner = append(inner, in)
			} else {
				rest = append(rest, in)
			}
		}
		sort.SliceStable(inner, func(i, j int) bool { return inner[i].off < inner[j].off })
		var text []byte
		prev := h.a
		for _, in := range inner {
			if in.off < prev {
				return 0, nil, fmt.Errorf("instrumenter: overlapping rewrites at offset %d", in.off)
			}
			text = append(text, src[prev:in.off]...)
			prev = in.off + in.del
			text = append(text, in.text...)
		}
		text = append(text, src[prev:h.b]...)
		ins = append([]insertion{{h.target, h.name + " := " + strings.ReplaceAll(string(text), "\n", " ") + "; ", 0}}, rest...)
		ins = append(ins, insertion{h.a, strings.Repeat("\n", strings.Count(string(src[h.a:h.b]), "\n")) + h.name, h.b - h.a})
	}
	sort.SliceStable(ins, func(i, j int) bool { return ins[i].off < ins[j].off })
	var out []byte
	prev := 0
	for _, in := range ins {
		if in.off < prev {
			return 0, nil, fmt.Errorf("instrumenter: overlapping rewrites at offset %d", in.off)
		}
		out = append(out, src[prev:in.off]...)
		prev = in.off + in.del
		out = append(out, in.text...)
	}
	out = append(out, src[prev:]...)
	return points, out, nil
}
