package main

import (
	"fmt"
	"os"
	"path/filepath"
	"strings"
	"time"
)

// runReplay re-executes a replay file against /repo's current working tree in
// a fresh process and reports whether the recorded violation occurs again.
func runReplay(file string) int {
	raw, err := os.ReadFile(file)
	if err != nil {
		infraf("%v", err)
	}
	rec := decodeObj(raw)
	if rec == nil {
		infraf("%s: not a replay file", file)
	}
	prop := fmt.Sprint(rec["prop"])
	cfg, ok := configByName(fmt.Sprint(rec["config"]))
	if !ok {
		infraf("replay file names unknown configuration %v", rec["config"])
	}
	checkID := fmt.Sprint(rec["check_id"])
	engine := fmt.Sprint(rec["engine"])
	race := engine == "conc" && cfg.GoArch == ""
	b, err := prepareBuild([]Config{cfg}, []bool{race})
	defer b.Cleanup()
	if err != nil {
		infraf("%v", err)
	}
	name := cfg.Name
	envf := func(string) []string { return nil }
	if race {
		name += "-race"
		envf = raceEnv
	}
	bin := b.Bins[name]
	hist := int(num(rec, "history"))
	fmt.Printf("edsim: replaying %s (property %s, check %s, engine %s, configuration %s, history %d)\n", file, prop, checkID, engine, cfg.Name, hist)
	reproduced, detail := false, ""
	if engine == "io" {
		var r *workerResult
		if hist > 0 {
			idx := int(num(rec, "index"))
			r = runWorker(bin, []string{"io", "-prop", prop, "-config", cfg.Name, "-seed", fmt.Sprint(rec["seed"]), "-worker", fmt.Sprint(rec["worker"]),
				"-from", fmt.Sprint(idx - hist), "-to", fmt.Sprint(idx + 1)}, nil, 30*time.Minute)
		} else {
			r = runWorker(bin, []string{"io", "-prop", prop, "-config", cfg.Name, "-case", file}, nil, 30*time.Minute)
		}
		if r.exit > 1 {
			infraf("replay worker failed (exit %d): %s", r.exit, tail(r.stderr, 20))
		}
		for _, v := range r.viols {
			if fmt.Sprint(v["check_id"]) == checkID {
				reproduced = true
				detail = fmt.Sprintf("%v\n  expected: %v\n  actual:   %v", v["msg"], v["expected"], v["actual"])
			}
		}
	} else {
		if hist > 0 {
			// the failure needs the process history: regenerate the op pool
			// (a pure function of the seed), its solo references, and re-run
			// the recorded suffix of the worker's stream in one fresh process
			n := int(num(rec, "pool_n"))
			poolFile := filepath.Join(b.Scratch, "pool.json")
			r := runWorker(bin, []string{"genpool", "-seed", fmt.Sprint(rec["seed"]), "-n", fmt.Sprint(n)}, nil, 5*time.Minute)
			os.WriteFile(poolFile, r.stdout, 0o644)
			refs := filepath.Join(b.Scratch, "refs.json")
			if err := soloRefs(bin, poolFile, n, refs, envf(filepath.Join(b.Scratch, "solo"))); err != nil {
				infraf("%v", err)
			}
			idx := int(num(rec, "index"))
			args := []string{"conc", "-config", cfg.Name, "-seed", fmt.Sprint(rec["seed"]), "-worker", fmt.Sprint(rec["worker"]), "-pool", poolFile, "-ref", refs,
				"-from", fmt.Sprint(int(num(rec, "history_from"))), "-to", fmt.Sprint(idx + 1)}
			if fu := int(num(rec, "history_firstuse")); fu >= 0 {
				args = append(args, "-firstuse", fmt.Sprint(fu))
			}
			if f, _ := rec["family"].(string); f != "" {
				args = append(args, "-family", f)
			}
			pfx := filepath.Join(b.Scratch, "race-replay")
			r = runWorker(bin, args, envf(pfx), 60*time.Minute)
			rep := readRaceLog(pfx)
			switch {
			case (r.exit == 66 || rep != "") && checkID == "conc-race":
				reproduced, detail = true, rep
			case r.exit == 1 && len(r.viols) > 0 && fmt.Sprint(r.viols[0]["check_id"]) == checkID:
				reproduced, detail = true, fmt.Sprint(r.viols[0]["msg"])
			}
		} else {
			reproduced, detail = replayEpisodeFile(b, bin, envf, file, checkID)
		}
		if checkID == "conc-race" && reproduced {
			detail = raceSites(detail) + "\n" + tail(normaliseRace(detail), 40)
		}
	}
	if reproduced {
		fmt.Printf("VIOLATION property=%s replay=%s\n  %s\n", prop, file, strings.ReplaceAll(detail, "\n", "\n  "))
		return exitViol
	}
	fmt.Printf("NOT REPRODUCED: property=%s replay=%s (the current tree does not fail this case)\n", prop, file)
	return exitOK
}

// runSelftest: warm (build everything once so that later checks hit the build
// cache), canary, determinism.
func runSelftest(what string, args []string) int {
	switch what {
	case "warm":
		cfgs := append([]Config{}, allConfigs...)
		race := make([]bool, len(cfgs))
		for _, c := range allConfigs[:5] {
			cfgs = append(cfgs, c)
			race = append(race, true)
		}
		b, err := prepareBuild(cfgs, race)
		defer b.Cleanup()
		if err != nil {
			infraf("%v", err)
		}
		fmt.Printf("edsim: warm-up built %d worker binaries in %.1fs (%d instrumentation points)\n", len(b.Bins), b.BuildS, b.Points)
		return exitOK
	case "canary":
		b, err := prepareBuild([]Config{allConfigs[0]}, []bool{true})
		defer b.Cleanup()
		if err != nil {
			infraf("%v", err)
		}
		if err := canary(b, "default"); err != nil {
			infraf("%v", err)
		}
		fmt.Println("edsim: canary ok")
		return exitOK
	case "determinism":
		return selftestDeterminism(args)
	}
	usage()
	return exitInfr
}

// selftestDeterminism: many same-seed processes across GOMAXPROCS values, for
// both engines; any difference in the per-case traces is exit 2.
func selftestDeterminism(args []string) int {
	runs := 30
	if len(args) > 0 {
		fmt.Sscan(args[0], &runs)
	}
	seed := envSeed(99)
	b, err := prepareBuild([]Config{allConfigs[0], allConfigs[0]}, []bool{false, true})
	defer b.Cleanup()
	if err != nil {
		infraf("%v", err)
	}
	for _, prop := range []string{"C14", "C06", "C13", "C02"} {
		var first string
		for i := 0; i < runs; i++ {
			gmp := []string{"1", "4", "16"}[i%3]
			r := runWorker(b.Bins["default"], []string{"io", "-prop", prop, "-seed", fmt.Sprint(seed), "-worker", "3", "-from", "0", "-to", "60", "-trace"}, []string{"GOMAXPROCS=" + gmp}, 10*time.Minute)
			var tr []string
			for _, l := range strings.Split(string(r.stdout), "\n") {
				if strings.Contains(l, `"t":"trace"`) {
					tr = append(tr, l)
				}
			}
			s := strings.Join(tr, "\n")
			if i == 0 {
				first = s
				if len(tr) == 0 {
					infraf("determinism: no trace for %s", prop)
				}
			} else if s != first {
				infraf("determinism: io/%s run %d (GOMAXPROCS=%s) diverged", prop, i, gmp)
			}
		}
		fmt.Printf("edsim: io/%s: %d identical runs\n", prop, runs)
	}
	poolFile := filepath.Join(b.Scratch, "pool.json")
	r := runWorker(b.Bins["default-race"], []string{"genpool", "-seed", fmt.Sprint(seed), "-n", "80"}, nil, time.Minute)
	os.WriteFile(poolFile, r.stdout, 0o644)
	refs := filepath.Join(b.Scratch, "refs.json")
	if err := soloRefs(b.Bins["default-race"], poolFile, 80, refs, raceEnv(filepath.Join(b.Scratch, "solo"))); err != nil {
		infraf("%v", err)
	}
	if err := concDeterminism(b, b.Bins["default-race"], poolFile, refs, seed, 12, runs); err != nil {
		infraf("determinism: conc: %v", err)
	}
	fmt.Printf("edsim: conc: %d identical runs of 12 episodes across GOMAXPROCS 1/4/16\n", runs)
	return exitOK
}
