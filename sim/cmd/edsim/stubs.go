package main

import "time"

func checkConc(prop, tier string, seed uint64, spec propSpec, start time.Time) int {
	infraf("conc engine not wired yet")
	return exitInfr
}
func runReplay(file string) int            { infraf("replay not wired yet"); return exitInfr }
func runSelftest(w string, a []string) int { infraf("selftest not wired yet"); return exitInfr }
