package main

import (
	"bufio"
	"bytes"
	"fmt"
	"os"
	"os/exec"
	"path/filepath"
	"sort"
	"strings"
	"sync"
	"time"
)

type workerResult struct {
	cfg      string
	worker   int
	exit     int
	stats    map[string]interface{}
	viols    []map[string]interface{}
	lastEp   int
	stderr   string
	stdout   []byte
	killed   bool
	from     int
	firstuse int
	family   string
	raceLogs []string
}

// runWorker runs one worker process to completion (with a hard wall-clock
// limit that only ever produces exit 2, never a verdict).
func runWorker(bin string, args []string, env []string, limit time.Duration) *workerResult {
	res := &workerResult{lastEp: -1}
	cmd := exec.Command(bin, args...)
	cmd.Env = append(os.Environ(), env...)
	var so, se bytes.Buffer
	cmd.Stdout, cmd.Stderr = &so, &se
	if err := cmd.Start(); err != nil {
		res.exit, res.stderr = exitInfr, err.Error()
		return res
	}
	done := make(chan error, 1)
	go func() { done <- cmd.Wait() }()
	select {
	case err := <-done:
		if err != nil {
			if ee, ok := err.(*exec.ExitError); ok {
				res.exit = ee.ExitCode()
			} else {
				res.exit = exitInfr
			}
		}
	case <-time.After(limit):
		cmd.Process.Kill()
		<-done
		res.killed = true
		res.exit = exitInfr
	}
	res.stderr = se.String()
	res.stdout = so.Bytes()
	if f := os.Getenv("ZZSIM_TRACE_FILE"); f != "" {
		// development aid: keep what the worker wrote to stderr (ZZSIM_TRACE=1)
		if fh, err := os.OpenFile(f, os.O_APPEND|os.O_CREATE|os.O_WRONLY, 0o644); err == nil {
			fmt.Fprintf(fh, "==== %s %v\n%s\n", bin, args, res.stderr)
			fh.Close()
		}
	}
	sc := bufio.NewScanner(bytes.NewReader(res.stdout))
	sc.Buffer(make([]byte, 1<<20), 1<<28)
	for sc.Scan() {
		m := decodeObj(sc.Bytes())
		if m == nil {
			continue
		}
		switch m["t"] {
		case "stats":
			res.stats = m
		case "violation":
			res.viols = append(res.viols, m)
		case "ep-start":
			res.lastEp = int(num(m, "idx"))
		}
	}
	return res
}

type ioPlan struct {
	cfg    Config
	worker int
	eidx   int
	en     int
}

func ioConfigs(tier string) []Config {
	// all six: a panic that only a 32-bit target shows (an unaligned 64-bit
	// atomic, an int overflow) must not wait for the thorough tier
	return allConfigs
}

func checkIO(prop, tier string, seed uint64, spec propSpec, start time.Time) int {
	cfgs := ioConfigs(tier)
	race := make([]bool, len(cfgs))
	b, err := prepareBuild(cfgs, race)
	defer b.Cleanup()
	if err != nil {
		if _, ok := err.(unsupportedErr); ok {
			infraf("%v", err)
		}
		infraf("%v", err)
	}
	fmt.Printf("edsim: instrumented %d points in %d files; built %d configurations in %.1fs\n", b.Points, b.Files, len(b.Bins), b.BuildS)
	nw := 16
	var plans []ioPlan
	per := map[string]int{}
	for i := 0; i < nw; i++ {
		c := cfgs[i%len(cfgs)]
		if tier == "quick" {
			// the five amd64 tag sets share 15 workers (and the enumerations);
			// the native 32-bit target gets one worker for the random part
			c = cfgs[i%5]
			if i == nw-1 {
				c = cfgs[5]
			}
		}
		plans = append(plans, ioPlan{cfg: c, worker: i, eidx: per[c.Name]})
		per[c.Name]++
	}
	for i := range plans {
		plans[i].en = per[plans[i].cfg.Name]
	}
	dur := spec.quickS
	if tier == "thorough" {
		dur = spec.thorS
	}
	if d := os.Getenv("VERIF_DUR"); d != "" {
		fmt.Sscan(d, &dur)
	}
	results := make([]*workerResult, len(plans))
	var wg sync.WaitGroup
	for i, p := range plans {
		wg.Add(1)
		go func(i int, p ioPlan) {
			defer wg.Done()
			args := []string{"io", "-prop", prop, "-config", p.cfg.Name, "-seed", fmt.Sprint(seed), "-worker", fmt.Sprint(p.worker),
				"-dur", fmt.Sprintf("%ds", dur), "-eidx", fmt.Sprint(p.eidx), "-en", fmt.Sprint(p.en)}
			if spec.enum && !(tier == "quick" && p.cfg.GoArch != "") {
				args = append(args, "-enum")
			}
			if tier == "thorough" {
				args = append(args, "-thorough")
			}
			r := runWorker(b.Bins[p.cfg.Name], args, nil, 2*time.Duration(dur)*time.Second+20*time.Minute)
			r.cfg, r.worker = p.cfg.Name, p.worker
			results[i] = r
		}(i, p)
	}
	wg.Wait()

	// aggregate
	agg := newAgg()
	var viols []map[string]interface{}
	for _, r := range results {
		if r.killed {
			infraf("worker %d (%s) exceeded its wall-clock limit", r.worker, r.cfg)
		}
		if r.exit != 0 && r.exit != 1 {
			infraf("worker %d (%s) exited with status %d:\n%s", r.worker, r.cfg, r.exit, tail(r.stderr, 30))
		}
		if r.stats == nil {
			infraf("worker %d (%s) produced no statistics:\n%s", r.worker, r.cfg, tail(r.stderr, 30))
		}
		agg.addIO(r.stats)
		viols = append(viols, r.viols...)
	}
	ev := agg.evidenceIO(prop, tier, seed, spec, cfgs, b, time.Since(start).Seconds())
	code := exitOK
	known := loadKnown()
	reported := 0
	sort.SliceStable(viols, func(i, j int) bool {
		return fmt.Sprint(viols[i]["config"], viols[i]["index"]) < fmt.Sprint(viols[j]["config"], viols[j]["index"])
	})
	seen := map[string]bool{}
	for _, v := range viols {
		key := fmt.Sprint(v["check_id"])
		if seen[key] {
			continue
		}
		seen[key] = true
		if k := known.match(v); k != nil {
			fmt.Printf("KNOWN-FINDING: property=%s %s\n", prop, k.What)
			continue
		}
		path := finishIOViolation(b, prop, seed, v)
		fmt.Printf("VIOLATION property=%s replay=%s\n", prop, path)
		fmt.Printf("  check=%v config=%v: %v\n", v["check_id"], v["config"], v["msg"])
		reported++
		code = exitViol
	}
	ev["violations"] = reported
	if code == exitOK {
		if err := agg.vacuityIO(prop, spec); err != nil {
			writeEvidence(prop, ev)
			infraf("vacuity guard: %v", err)
		}
	}
	writeEvidence(prop, ev)
	cov := ev["coverage"].(map[string]interface{})
	fmt.Printf("edsim: %s %s: %v cases (%v enumerated), %v distinct non-trivial signatures, %v logical steps, %d violation(s), %.1fs\n",
		prop, tier, cov["evaluations"], cov["enumerated"], cov["distinct_nontrivial"], cov["simulated_steps"], reported, time.Since(start).Seconds())
	return code
}

func writeEvidence(prop string, ev map[string]interface{}) {
	dir := filepath.Join(verifDir(), "evidence")
	if r := os.Getenv("VERIF_REPO"); r != "" && filepath.Clean(r) != "/repo" {
		// a development run against some other tree (a seeded change in a
		// scratch copy): /verif/evidence describes /repo only
		dir = filepath.Join(os.TempDir(), "edsim-evidence-other-tree")
	}
	os.MkdirAll(dir, 0o755)
	if err := writeJSON(filepath.Join(dir, prop+".json"), ev); err != nil {
		infraf("write evidence: %v", err)
	}
}

// finishIOViolation confirms a violation in a fresh process, minimises it and
// writes the replay file.
func finishIOViolation(b *Build, prop string, seed uint64, v map[string]interface{}) string {
	dir := filepath.Join(verifDir(), "replays")
	os.MkdirAll(dir, 0o755)
	cfg := fmt.Sprint(v["config"])
	name := fmt.Sprintf("%s-%d-%s-w%v-i%v.json", prop, seed, cfg, v["worker"], v["index"])
	path := filepath.Join(dir, name)
	v["replay_cmd"] = "./check.sh replay " + path
	writeJSON(path, v)
	bin := b.Bins[cfg]
	// fresh-process confirmation of the case alone
	r := runWorker(bin, []string{"io", "-prop", prop, "-config", cfg, "-case", path}, nil, 10*time.Minute)
	alone := len(r.viols) > 0 && fmt.Sprint(r.viols[0]["check_id"]) == fmt.Sprint(v["check_id"])
	if !alone {
		// needs the process history: find the shortest suffix of preceding cases
		idx := int(num(v, "index"))
		if idx < 0 {
			v["note"] = "enumeration case did not reproduce in a fresh process"
			writeJSON(path, v)
			return path
		}
		for h := 1; ; h *= 2 {
			from := idx - h
			if from < 0 {
				from = 0
			}
			r := runWorker(bin, []string{"io", "-prop", prop, "-config", cfg, "-seed", fmt.Sprint(seed), "-worker", fmt.Sprint(v["worker"]),
				"-from", fmt.Sprint(from), "-to", fmt.Sprint(idx + 1)}, nil, 20*time.Minute)
			if len(r.viols) > 0 {
				v["history"] = idx - from
				v["note"] = "fails only after the preceding cases of the same worker stream ran in the same process"
				break
			}
			if from == 0 {
				v["note"] = "NOT reproducible in a fresh process (neither alone nor with its full history)"
				break
			}
		}
		writeJSON(path, v)
		return path
	}
	// minimise
	m := runWorker(bin, []string{"io", "-prop", prop, "-config", cfg, "-case", path, "-minimise"}, nil, 5*time.Minute)
	for _, line := range strings.Split(string(m.stdout), "\n") {
		var mm struct {
			T   string
			Ok  bool
			Rec map[string]interface{}
		}
		if o := decodeObj([]byte(line)); o != nil {
			mm.T, _ = o["t"].(string)
			mm.Ok, _ = o["ok"].(bool)
			mm.Rec, _ = o["rec"].(map[string]interface{})
		}
		if mm.T == "minimised" && mm.Ok && mm.Rec != nil {
			mm.Rec["t"] = "violation"
			mm.Rec["minimised"] = true
			mm.Rec["replay_cmd"] = v["replay_cmd"]
			mm.Rec["original_case"] = v["case"]
			writeJSON(path, mm.Rec)
			// final fresh-process confirmation of the minimised file
			r := runWorker(bin, []string{"io", "-prop", prop, "-config", cfg, "-case", path}, nil, 10*time.Minute)
			if len(r.viols) == 0 {
				writeJSON(path, v) // fall back to the unminimised, confirmed case
			}
		}
	}
	return path
}
