package main

import (
	"go/parser"
	"go/token"
	"os"
	"path/filepath"
	"strings"
	"testing"
)

// The rewritten source must parse, keep its line count, and evaluate select
// operands once (in front of the polling loop).
func TestSelectHoisting(t *testing.T) {
	src := `package p

import "time"

func f(done chan int, out chan<- int, g func() int) int {
	for i := 0; i < 3; i++ {
	L:
		select {
		case v := <-done:
			return v
		case <-time.After(
			time.Second):
			break L
		case out <- g():
		}
	}
	select {
	case <-done:
	default:
	}
	return 0
}
`
	dir := t.TempDir()
	if err := os.WriteFile(filepath.Join(dir, "a.go"), []byte(src), 0o644); err != nil {
		t.Fatal(err)
	}
	if _, _, err := instrumentTree(dir); err != nil {
		t.Fatal(err)
	}
	out, _ := os.ReadFile(filepath.Join(dir, "a.go"))
	if _, err := parser.ParseFile(token.NewFileSet(), "a.go", out, 0); err != nil {
		t.Fatalf("rewritten source does not parse: %v\n%s", err, out)
	}
	lineOf := func(s, marker string) int { return strings.Count(s[:strings.Index(s, marker)], "\n") }
	if lineOf(string(out), "return 0") != lineOf(src, "return 0") {
		t.Fatalf("line numbers changed:\n%s", out)
	}
	s := string(out)
	for _, want := range []string{":= zztime.After(", ":= g();", "L:\n\t\tfor { select {"} {
		if !strings.Contains(s, want) {
			t.Fatalf("missing %q in:\n%s", want, s)
		}
	}
	if strings.Index(s, ":= zztime.After(") > strings.Index(s, "L:") {
		t.Fatalf("temporaries must precede the label:\n%s", s)
	}
}

func TestChannelRewrites(t *testing.T) {
	src := `package p

type pool struct {
	jobs chan int
}

func g(n int, f func(int) bool) []bool {
	out := make([]bool, n)
	jobs := make(chan int)
	done := make(chan struct{})
	go func() {
		defer close(done)
	outer:
		for i := range jobs {
			if i < 0 {
				continue
			}
			for j := 0; j < 2; j++ {
				if j == 1 {
					continue outer
				}
			}
			out[i] = f(i)
		}
	}()
	for i := 0; i < n; i++ {
		jobs <- i
	}
	close(jobs)
	<-done
	select {
	case <-done:
	default:
	}
	return out
}
`
	dir := t.TempDir()
	if err := os.WriteFile(filepath.Join(dir, "a.go"), []byte(src), 0o644); err != nil {
		t.Fatal(err)
	}
	if _, _, err := instrumentTree(dir); err != nil {
		t.Fatal(err)
	}
	out, _ := os.ReadFile(filepath.Join(dir, "a.go"))
	if _, err := parser.ParseFile(token.NewFileSet(), "a.go", out, 0); err != nil {
		t.Fatalf("rewritten source does not parse: %v\n%s", err, out)
	}
	s := string(out)
	for _, want := range []string{
		"go zzsimrt.GoCallL(func() {",
		"}, zzsimrt.Spawn())",
		"zzsimrt.WaitRecv(jobs); outer:",
		"{ zzsimrt.WaitRecv(jobs); continue }",
		"{ zzsimrt.WaitRecv(jobs); continue outer }",
		":= zzsimrt.WaitSend(jobs); jobs <- i; zzsimrt.AfterSend(",
		"zzsimrt.Closing(jobs); close(jobs)",
		"defer func() { zzsimrt.Closing(done); close(done) }()",
		"zzsimrt.WaitRecv(done); <-done",
		"zzsimrt.SelectCheck(done); select {",
	} {
		if !strings.Contains(s, want) {
			t.Fatalf("missing %q in:\n%s", want, s)
		}
	}
	lineOf := func(s, marker string) int { return strings.Count(s[:strings.Index(s, marker)], "\n") }
	if lineOf(s, "return out") != lineOf(src, "return out") {
		t.Fatalf("line numbers changed:\n%s", s)
	}
}

func TestSelectWithContinue(t *testing.T) {
	src := `package p

import "time"

func w(q chan int, out chan int) {
	for {
		idle := time.NewTimer(time.Second)
		select {
		case v := <-q:
			idle.Stop()
			if v < 0 {
				continue
			}
			out <- v
		case <-idle.C:
			return
		}
	}
}
`
	dir := t.TempDir()
	if err := os.WriteFile(filepath.Join(dir, "a.go"), []byte(src), 0o644); err != nil {
		t.Fatal(err)
	}
	if _, _, err := instrumentTree(dir); err != nil {
		t.Fatal(err)
	}
	out, _ := os.ReadFile(filepath.Join(dir, "a.go"))
	if _, err := parser.ParseFile(token.NewFileSet(), "a.go", out, 0); err != nil {
		t.Fatalf("rewritten source does not parse: %v\n%s", err, out)
	}
	s := string(out)
	for _, want := range []string{" := false; ", ": for { select {", " = true; break zzl", "; break }; if zzc", " { continue }"} {
		if !strings.Contains(s, want) {
			t.Fatalf("missing %q in:\n%s", want, s)
		}
	}
}

func TestReceiveInIfAndSwitch(t *testing.T) {
	src := `package p

func c(results chan int, n int) int {
	ret := 0
	for i := 0; i < n; i++ {
		if ret |= <-results; ret != 0 {
			break
		}
	}
	switch v := <-results; v {
	case 1:
		ret++
	}
	return ret
}
`
	dir := t.TempDir()
	if err := os.WriteFile(filepath.Join(dir, "a.go"), []byte(src), 0o644); err != nil {
		t.Fatal(err)
	}
	if _, _, err := instrumentTree(dir); err != nil {
		t.Fatal(err)
	}
	out, _ := os.ReadFile(filepath.Join(dir, "a.go"))
	if _, err := parser.ParseFile(token.NewFileSet(), "a.go", out, 0); err != nil {
		t.Fatalf("rewritten source does not parse: %v\n%s", err, out)
	}
	s := string(out)
	for _, want := range []string{"zzsimrt.WaitRecv(results); if ret |= <-results", "zzsimrt.WaitRecv(results); switch v := <-results"} {
		if !strings.Contains(s, want) {
			t.Fatalf("missing %q in:\n%s", want, s)
		}
	}
}
