module edsim

go 1.23
