package main

import (
	"bytes"
	stded "crypto/ed25519"
	"fmt"

	"github.com/oasisprotocol/ed25519"
)

// ---------------------------------------------------------------- C02: signing never touches entropy, is repeatable, and matches the reference

func genC02(r *Rng) *Case {
	op := &Op{Seed: r.U64()}
	op.Fn = []string{"PrivSign", "PrivSign", "PrivSign", "Sign", "GenerateKey"}[r.Intn(5)]
	if op.Fn == "GenerateKey" {
		op.Rd = randDevPlan(r, 32, false)
		op.NilRd = r.Chance(1, 3)
		return &Case{Prop: "C02", Check: "sign", Op: op}
	}
	o := Opt{}
	switch r.Pick(6, 5, 5, 1, 1) {
	case 1:
		o.Ctx = []int{1, 2, 254, 255, r.Range(1, 255)}[r.Intn(5)]
	case 2:
		o.Hash = 1
		o.Ctx = []int{0, 0, 1, 254, 255, r.Range(0, 255)}[r.Intn(6)]
	case 3:
		o.Hash = r.Range(2, 4)
	case 4:
		o.Ctx = []int{256, 300}[r.Intn(2)]
		o.Hash = r.Intn(2)
	}
	if r.Chance(1, 3) && o.Ctx == 0 && o.Hash <= 1 {
		o.Form = 1
	}
	o.Zip = r.Chance(1, 4) // a verification-only flag: signing must not care
	if o.Ctx > 0 && r.Chance(1, 3) {
		o.CK = 1 + r.Intn(3)
	}
	op.Opt = o
	op.ML = []int{0, 1, 2, 31, 32, 63, 64, 65, 111, 112, 113, 127, 128, 129, 255, 256, 257, 1000, 4096, r.Range(0, 3000)}[r.Intn(20)]
	if o.Hash == 1 && r.Chance(1, 8) {
		op.Alias = 9
		op.ML = []int{0, 32, 63, 65}[r.Intn(4)]
	}
	op.Other = r.Intn(5) // seed kind
	return &Case{Prop: "C02", Check: "sign", Op: op}
}

// enumSignLengths: every context length 0..257 for Ed25519ctx and Ed25519ph,
// and every message length 0..260 (all SHA-512 padding phases twice over) for
// the pure variant in both option forms.
func enumSignLengths() []*Case {
	var out []*Case
	seed := uint64(0xC02)
	add := func(op *Op) {
		seed++
		op.Seed = mix64(seed)
		out = append(out, &Case{Prop: "C02", Check: "sign", Op: op})
	}
	for c := 0; c <= 257; c++ {
		add(&Op{Fn: "PrivSign", Opt: Opt{Ctx: c, Zip: c%3 == 0}, ML: c % 70})
		add(&Op{Fn: "PrivSign", Opt: Opt{Hash: 1, Ctx: c, Zip: c%3 == 1}})
	}
	for _, c := range []int{2, 254, 255, 256, 258, 300, 510} {
		for ck := 1; ck <= 2; ck++ {
			add(&Op{Fn: "PrivSign", Opt: Opt{Ctx: c, CK: ck}, ML: 5})
			add(&Op{Fn: "PrivSign", Opt: Opt{Hash: 1, Ctx: c, CK: ck}})
		}
	}
	for ml := 0; ml <= 260; ml++ {
		add(&Op{Fn: "PrivSign", ML: ml, Opt: Opt{Form: ml % 2}})
		add(&Op{Fn: "Sign", ML: ml})
	}
	for _, ml := range []int{4095, 4096, 4097, 65535, 65536, 65537, 70001, 131071, 131072, 131073, 200003} {
		for k := 0; k < 3; k++ { // three seeds each: with and without spare capacity behind the message
			add(&Op{Fn: "PrivSign", ML: ml, Opt: Opt{Form: k % 2}})
			add(&Op{Fn: "PrivSign", ML: ml, Opt: Opt{Ctx: 1 + k}})
			add(&Op{Fn: "Sign", ML: ml})
		}
	}
	for _, ml := range []int{0, 1, 63, 65, 128} {
		add(&Op{Fn: "PrivSign", Opt: Opt{Hash: 1}, ML: ml, Alias: 9})
		add(&Op{Fn: "PrivSign", Opt: Opt{Hash: 1, Form: 1}, ML: ml, Alias: 9})
	}
	for h := 2; h <= 4; h++ {
		add(&Op{Fn: "PrivSign", Opt: Opt{Hash: h}, ML: 64})
		add(&Op{Fn: "PrivSign", Opt: Opt{Hash: h, Form: 1}, ML: 64})
	}
	return out
}

func c02Seed(op *Op) []byte {
	s := signerSeed(op.Seed, 0)
	switch op.Other {
	case 1:
		for i := range s {
			s[i] = 0
		}
	case 2:
		for i := range s {
			s[i] = 0xff
		}
	case 3:
		for i := range s {
			s[i] = 0
		}
		s[int(op.Seed%32)] = 1 << uint(op.Seed>>8%8)
	}
	return s
}

func checkSign(c *Case, v *Verdict) {
	op := c.Op
	if op.Fn == "GenerateKey" {
		p := prepare(op)
		defer p.G.Release()
		out := execOp(p)
		v.Pts, v.Calls = out.Pts, 1
		v.noteDev(out.Dev, op.Rd)
		v.Sig = fmt.Sprintf("genkey nil=%v", op.NilRd)
		v.Nontriv = true
		if out.Dev.Calls == 0 {
			return // entropy came from somewhere else than crypto/rand.Reader: nothing to compare with
		}
		if out.err != nil || out.Panic != "" {
			v.fail("c02-genkey", "a key pair", fmt.Sprintf("err=%v panic=%q", out.err, out.Panic), "GenerateKey failed on a healthy reader")
			return
		}
		// the seed is the first 32 bytes of the entropy stream, however the
		// device chops it up (content is a pure function of the offset)
		probe := NewDevice(op.Rd)
		stream := make([]byte, 32)
		for i := range stream {
			stream[i] = probe.contentByte(i)
		}
		ref := stded.NewKeyFromSeed(stream)
		if !bytes.Equal(out.b2, ref) || !bytes.Equal(out.b, ref[32:]) {
			v.fail("c02-genkey-derivation", hx(ref), hexOrNil(out.b2), "GenerateKey's key pair differs from RFC 8032 derivation of the seed read")
		}
		return
	}
	seed := c02Seed(op)
	// key derivation against the reference model
	lib := ed25519.NewKeyFromSeed(append([]byte{}, seed...))
	ref := stded.NewKeyFromSeed(seed)
	v.Calls++
	if !bytes.Equal(lib, ref) {
		v.fail("c02-derive", hx(ref), hx(lib), "NewKeyFromSeed differs from the reference derivation")
		return
	}
	o := op.Opt
	ml := op.ML
	if o.Hash == 1 && op.Alias != 9 {
		ml = 64
	}
	msg := seededBytes(ml, op.Seed, lbl("msg"), 0)
	ctx := o.ctxBytes(op.Seed)
	// reference signature / refusal
	var refSig []byte
	var refErr error
	if op.Fn == "Sign" {
		refSig = stded.Sign(ref, msg)
	} else if o.Form == 1 {
		refSig, refErr = ref.Sign(nil, msg, o.hash())
	} else {
		refSig, refErr = ref.Sign(nil, msg, &stded.Options{Hash: o.hash(), Context: string(ctx)})
	}
	// the same call under three entropy devices and twice in a row
	type run struct {
		name string
		rd   *DevPlan
		nilr bool
	}
	runs := []run{
		{"tripwire", &DevPlan{CSeed: op.Seed, Trip: true}, false},
		{"failing", &DevPlan{CSeed: op.Seed, Trip: true, FailAt: 1, FailKind: 1 + int(op.Seed%3)}, false},
		{"nil", &DevPlan{CSeed: op.Seed, Trip: true}, true},
		{"tripwire-again", &DevPlan{CSeed: op.Seed ^ 1, Trip: true, Content: CZero}, false},
	}
	var first *Outcome
	for _, rn := range runs {
		o2 := *op
		o2.Rd, o2.NilRd = rn.rd, rn.nilr
		o2.KL = 0
		p := prepare(&o2)
		defer p.G.Release()
		// prepare derives the key from signerSeed; substitute the seed kind
		p.priv = p.G.Buf([]byte(ref))
		p.msg = p.G.Buf(msg)
		p.G.Seal()
		out := execOp(p)
		v.Calls++
		v.Pts += out.Pts
		act := fmt.Sprintf("[%s] sig=%s err=%q panic=%q", rn.name, out.B, out.Err, out.Panic)
		if out.Panic != "" {
			v.fail("c02-panic", "a signature or an error", act, "signing panicked: %s", out.Panic)
			return
		}
		if !out.Intact {
			v.fail("c02-intact", "inputs untouched", act, "signing modified its inputs")
			return
		}
		if out.Dev != nil && out.Dev.Calls > 0 {
			v.fire("tripwire")
			v.fail("c02-entropy-read", "no Read on the entropy argument", fmt.Sprintf("%s device{calls=%d asked=%v}", act, out.Dev.Calls, out.Dev.Asked),
				"signing read from its entropy source (%s reader)", rn.name)
			return
		}
		if first == nil {
			first = out
			if refErr != nil {
				v.probe("refused-by-reference")
				if out.err == nil {
					v.fail("c02-accepts-refused", fmt.Sprintf("refusal (reference: %v)", refErr), act, "signing accepted options the reference refuses")
					return
				}
			} else {
				if out.err != nil {
					v.fail("c02-refuses-accepted", hx(refSig), act, "signing refused options the reference accepts")
					return
				}
				if !bytes.Equal(out.b, refSig) {
					v.fail("c02-bytes", hx(refSig), act, "signature differs from the reference (RFC 8032) signature")
					return
				}
			}
			continue
		}
		if out.B != first.B || (out.err == nil) != (first.err == nil) {
			v.fail("c02-nondeterministic", first.B, act, "signing returned different bytes for the same (key, message, options) under the %s reader", rn.name)
			return
		}
	}
	v.Sig = fmt.Sprintf("%s h%d c%d f%d ml=%d seedkind=%d refused=%v", op.Fn, o.Hash, o.Ctx, o.Form, ml, op.Other, refErr != nil)
	v.Nontriv = true
}
