package main

// A small math/big model of edwards25519, used ONLY to build inputs the public
// API cannot produce (torsion points, mixed-order keys, ZIP-215 corner
// signatures, non-canonical encodings). It is never an oracle: a mistake here
// can cost coverage, not soundness.

import (
	"crypto/sha512"
	"math/big"
)

var (
	bcP, bcD, bcL, bcI *big.Int
	bcB                *bcPoint
	bcTorsion          [8]*bcPoint // bcTorsion[i] = [i]T8, T8 of order 8
	smallOrderEnc      [][]byte    // the 14 encodings of small-order points
	nonCanonEnc        [][]byte    // decodable encodings with y >= p (incl. small order ones)
)

type bcPoint struct{ X, Y, Z, T *big.Int }

func bi(s string) *big.Int {
	v, ok := new(big.Int).SetString(s, 10)
	if !ok {
		panic("bi")
	}
	return v
}

func fmod(x *big.Int) *big.Int { return x.Mod(x, bcP) }

func fmul(a, b *big.Int) *big.Int { return fmod(new(big.Int).Mul(a, b)) }
func fadd(a, b *big.Int) *big.Int { return fmod(new(big.Int).Add(a, b)) }
func fsub(a, b *big.Int) *big.Int { return fmod(new(big.Int).Sub(a, b)) }
func finv(a *big.Int) *big.Int    { return new(big.Int).ModInverse(a, bcP) }

func init() {
	bcP = new(big.Int).Sub(new(big.Int).Lsh(big.NewInt(1), 255), big.NewInt(19))
	bcL = new(big.Int).Add(new(big.Int).Lsh(big.NewInt(1), 252), bi("27742317777372353535851937790883648493"))
	// d = -121665/121666
	bcD = fmul(fsub(big.NewInt(0), big.NewInt(121665)), finv(big.NewInt(121666)))
	// sqrt(-1) = 2^((p-1)/4)
	e := new(big.Int).Rsh(new(big.Int).Sub(bcP, big.NewInt(1)), 2)
	bcI = new(big.Int).Exp(big.NewInt(2), e, bcP)
	// base point: y = 4/5, x even... (x is "positive" = even per RFC 8032)
	by := fmul(big.NewInt(4), finv(big.NewInt(5)))
	bx, ok := bcRecoverX(by, 0)
	if !ok {
		panic("bigcurve: base point")
	}
	bcB = bcAffine(bx, by)

	// find a point of order exactly 8: [L]P for small-y points P
	for y := int64(2); ; y++ {
		x, ok := bcRecoverX(big.NewInt(y), 0)
		if !ok {
			continue
		}
		t := bcScalarMult(bcL, bcAffine(x, big.NewInt(y)))
		t4 := bcScalarMult(big.NewInt(4), t)
		if !bcIsIdentity(t4) {
			bcTorsion[1] = t
			break
		}
	}
	bcTorsion[0] = bcIdentity()
	for i := 2; i < 8; i++ {
		bcTorsion[i] = bcAdd(bcTorsion[i-1], bcTorsion[1])
	}
	if !bcIsIdentity(bcAdd(bcTorsion[7], bcTorsion[1])) {
		panic("bigcurve: torsion")
	}
	// the encodings of small-order points: canonical, plus sign bit on x = 0,
	// plus y + p where that still fits in 255 bits
	seen := map[string]bool{}
	for i := 0; i < 8; i++ {
		x, y := bcToAffine(bcTorsion[i])
		for _, addP := range []bool{false, true} {
			yy := new(big.Int).Set(y)
			if addP {
				yy.Add(yy, bcP)
				if yy.BitLen() > 255 {
					continue
				}
			}
			signs := []uint{x.Bit(0)}
			if x.Sign() == 0 {
				signs = []uint{0, 1}
			}
			for _, s := range signs {
				enc := bcEncodeRaw(yy, s)
				if !seen[string(enc)] {
					seen[string(enc)] = true
					smallOrderEnc = append(smallOrderEnc, enc)
				}
			}
		}
	}
	if len(smallOrderEnc) != 14 {
		panic("bigcurve: expected 14 small-order encodings")
	}
	// non-canonical encodings y+p for y < 19 that decode (with either sign)
	for y := int64(0); y < 19; y++ {
		x, ok := bcRecoverX(big.NewInt(y), 0)
		if !ok {
			continue
		}
		yy := new(big.Int).Add(big.NewInt(y), bcP)
		nonCanonEnc = append(nonCanonEnc, bcEncodeRaw(yy, 0), bcEncodeRaw(yy, 1))
		_ = x
	}
}

func bcIdentity() *bcPoint {
	return &bcPoint{big.NewInt(0), big.NewInt(1), big.NewInt(1), big.NewInt(0)}
}

func bcAffine(x, y *big.Int) *bcPoint {
	return &bcPoint{new(big.Int).Set(x), new(big.Int).Set(y), big.NewInt(1), fmul(x, y)}
}

// bcRecoverX solves x^2 = (y^2-1)/(d y^2+1) and picks the root with the given
// low bit (when x = 0 the sign is ignored: lenient decoding).
func bcRecoverX(y *big.Int, sign uint) (*big.Int, bool) {
	yy := fmul(y, y)
	u := fsub(yy, big.NewInt(1))
	v := fadd(fmul(bcD, yy), big.NewInt(1))
	if v.Sign() == 0 {
		return nil, false
	}
	x2 := fmul(u, finv(v))
	if x2.Sign() == 0 {
		return big.NewInt(0), true
	}
	// x = x2^((p+3)/8)
	e := new(big.Int).Rsh(new(big.Int).Add(bcP, big.NewInt(3)), 3)
	x := new(big.Int).Exp(x2, e, bcP)
	if fmul(x, x).Cmp(x2) != 0 {
		x = fmul(x, bcI)
	}
	if fmul(x, x).Cmp(x2) != 0 {
		return nil, false
	}
	if x.Bit(0) != sign {
		x = fsub(big.NewInt(0), x)
	}
	return x, true
}

// bcDecode is the lenient decoding: y is taken mod p, sign bit on x=0 ignored.
func bcDecode(enc []byte) (*bcPoint, bool) {
	if len(enc) != 32 {
		return nil, false
	}
	var le [32]byte
	for i := 0; i < 32; i++ {
		le[31-i] = enc[i]
	}
	sign := uint(le[0] >> 7)
	le[0] &= 0x7f
	y := fmod(new(big.Int).SetBytes(le[:]))
	x, ok := bcRecoverX(y, sign)
	if !ok {
		return nil, false
	}
	return bcAffine(x, y), true
}

func bcEncodeRaw(y *big.Int, sign uint) []byte {
	out := make([]byte, 32)
	b := y.Bytes()
	for i := 0; i < len(b); i++ {
		out[i] = b[len(b)-1-i]
	}
	out[31] |= byte(sign << 7)
	return out
}

func bcToAffine(p *bcPoint) (x, y *big.Int) {
	zi := finv(p.Z)
	return fmul(p.X, zi), fmul(p.Y, zi)
}

func bcEncode(p *bcPoint) []byte {
	x, y := bcToAffine(p)
	return bcEncodeRaw(y, x.Bit(0))
}

// unified addition on extended coordinates (a = -1), complete.
func bcAdd(p, q *bcPoint) *bcPoint {
	a := fmul(fsub(p.Y, p.X), fsub(q.Y, q.X))
	b := fmul(fadd(p.Y, p.X), fadd(q.Y, q.X))
	c := fmul(fmul(p.T, q.T), fadd(bcD, bcD))
	d := fmul(p.Z, q.Z)
	d = fadd(d, d)
	e := fsub(b, a)
	f := fsub(d, c)
	g := fadd(d, c)
	h := fadd(b, a)
	return &bcPoint{fmul(e, f), fmul(g, h), fmul(f, g), fmul(e, h)}
}

func bcNeg(p *bcPoint) *bcPoint {
	return &bcPoint{fsub(big.NewInt(0), p.X), new(big.Int).Set(p.Y), new(big.Int).Set(p.Z), fsub(big.NewInt(0), p.T)}
}

func bcScalarMult(k *big.Int, p *bcPoint) *bcPoint {
	r := bcIdentity()
	for i := k.BitLen() - 1; i >= 0; i-- {
		r = bcAdd(r, r)
		if k.Bit(i) == 1 {
			r = bcAdd(r, p)
		}
	}
	return r
}

func bcIsIdentity(p *bcPoint) bool {
	x, y := bcToAffine(p)
	return x.Sign() == 0 && y.Cmp(big.NewInt(1)) == 0
}

func leToInt(b []byte) *big.Int {
	be := make([]byte, len(b))
	for i := range b {
		be[len(b)-1-i] = b[i]
	}
	return new(big.Int).SetBytes(be)
}

func intToLE32(v *big.Int) []byte {
	out := make([]byte, 32)
	b := v.Bytes()
	for i := 0; i < len(b) && i < 32; i++ {
		out[i] = b[len(b)-1-i]
	}
	return out
}

// dom2 is RFC 8032's prefix: empty for pure Ed25519.
func dom2(hash int, ctx []byte) []byte {
	if hash != 1 && len(ctx) == 0 {
		return nil
	}
	flag := byte(0)
	if hash == 1 {
		flag = 1
	}
	out := []byte("SigEd25519 no Ed25519 collisions")
	out = append(out, flag, byte(len(ctx)))
	return append(out, ctx...)
}

// bcSecret expands a seed into (clamped scalar a, nonce prefix).
func bcSecret(seed []byte) (*big.Int, []byte) {
	h := sha512.Sum512(seed)
	h[0] &= 248
	h[31] &= 127
	h[31] |= 64
	return leToInt(h[:32]), h[32:]
}

// bcSignAs signs msg with the secret of seed but with pubEnc hashed in place
// of the real public key (used for mixed-order keys A+T).
func bcSignAs(seed, pubEnc, msg, dom []byte) []byte {
	a, prefix := bcSecret(seed)
	h := sha512.New()
	h.Write(dom)
	h.Write(prefix)
	h.Write(msg)
	r := new(big.Int).Mod(leToInt(h.Sum(nil)), bcL)
	R := bcEncode(bcScalarMult(r, bcB))
	h.Reset()
	h.Write(dom)
	h.Write(R)
	h.Write(pubEnc)
	h.Write(msg)
	k := new(big.Int).Mod(leToInt(h.Sum(nil)), bcL)
	S := new(big.Int).Mod(new(big.Int).Add(r, new(big.Int).Mul(k, a)), bcL)
	return append(R, intToLE32(S)...)
}
