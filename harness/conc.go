package main

import (
	"encoding/json"
	"fmt"
	"os"
	"runtime"
	"runtime/debug"
	"sort"
	"sync"
	"time"

	"github.com/oasisprotocol/ed25519/zzsimrt"
)

// ---------------------------------------------------------------- op pool

func genPoolOp(r *Rng) *Op {
	op := &Op{Seed: r.U64()}
	switch r.Pick(8, 5, 7, 10, 8, 14, 25, 6, 8, 2, 2, 2, 3) {
	case 0:
		op.Fn = "GenerateKey"
		op.Rd = randDevPlan(r, 32, false)
		if r.Chance(1, 3) {
			addFailure(r, op.Rd, 32)
		}
		op.NilRd = r.Chance(1, 2)
		if r.Chance(1, 8) {
			// the caller's reader panics (and the caller recovers): whatever
			// the library had taken or locked must not stay that way
			if op.Rd.FailAt == 0 {
				op.Rd.FailAt = 1 + r.Intn(32)
			}
			op.Rd.FailKind, op.Rd.Recover = EPanic, false
		}
	case 1:
		op.Fn = "NewKeyFromSeed"
		if r.Chance(1, 6) {
			op.KL = lenCode(keyLens[r.Intn(len(keyLens))])
		}
	case 2:
		op.Fn = "Sign"
		op.ML = msgLen(r)
		if r.Chance(1, 10) {
			op.KL = lenCode(keyLens[r.Intn(len(keyLens))])
		}
	case 3:
		op.Fn = "PrivSign"
		op.Opt = genOpt(r)
		op.Opt.Form = r.Intn(2)
		if op.Opt.Form == 1 {
			op.Opt.Ctx = 0
		}
		op.ML = msgLen(r)
		op.Rd = &DevPlan{CSeed: r.U64(), Trip: true}
		op.NilRd = r.Chance(1, 3)
	case 4:
		op.Fn = "Verify"
		e := Entry{K: "ok", ML: msgLen(r)}
		if r.Chance(1, 2) {
			e = genBad(r, Opt{})
			e.ML = msgLen(r)
		}
		op.E = &e
		if r.Chance(1, 12) {
			op.KL = lenCode(keyLens[r.Intn(len(keyLens))])
		}
	case 5:
		op.Fn = "VerifyOpts"
		op.Opt = genOpt(r)
		e := genGood(r, op.Opt, 0)
		e.ML = msgLen(r)
		if r.Chance(1, 2) {
			e = genBad(r, op.Opt)
			e.ML = msgLen(r)
		}
		if r.Chance(1, 6) {
			// accepted under ZIP-215 rules only (see the option-only sibling)
			e = Entry{K: zipOnlyKinds[r.Intn(len(zipOnlyKinds))], P: r.Intn(1 << 16), Q: r.Intn(1 << 16), ML: msgLen(r)}
			if !op.Opt.signable() {
				op.Opt = Opt{Zip: op.Opt.Zip}
			}
		}
		op.E = &e
		if r.Chance(1, 12) {
			op.SL = lenCode(sigLens[r.Intn(len(sigLens))])
		}
	case 6:
		op.Fn = "VerifyBatch"
		maxN := []int{8, 8, 8, 8, 8, 70, 70, 70, 140, 200}[r.Intn(10)]
		b, _ := genBatchOp(r, maxN)
		for tries := 0; len(b.Entries) > maxN && tries < 20; tries++ {
			b, _ = genBatchOp(r, maxN)
		}
		b.Seed = op.Seed
		op = b
		if op.Rd != nil && len(op.Entries) >= 4 && r.Chance(1, 10) {
			if op.Rd.FailAt == 0 {
				op.Rd.FailAt = 1 + r.Intn(16*len(op.Entries))
			}
			op.Rd.FailKind, op.Rd.Recover = EPanic, false
		}
	case 7:
		op.Fn = []string{"Public", "Seed", "PrivEqual", "PubEqual"}[r.Intn(4)]
		op.Other = r.Intn(9)
		op.ML = r.Intn(64)
		op.KL = r.Intn(8)
	case 8:
		op.Fn = "X25519"
		op.Pt = []int{0, 0, 0, 1, 2, 2, 3, 5}[r.Intn(8)]
		op.ML = r.Intn(8)
		if r.Chance(1, 3) { // refused calls: wrong scalar or point length
			if r.Chance(1, 2) {
				op.KL = lenCode(keyLens[r.Intn(len(keyLens))])
			} else {
				op.Pt = 4
				op.SL = lenCode(keyLens[r.Intn(len(keyLens))])
			}
		}
	case 9:
		op.Fn = "ScalarBaseMult"
	case 10:
		op.Fn = "ScalarMult"
		if r.Chance(1, 2) {
			op.Pt = 3
			op.ML = r.Intn(8)
		}
	case 11:
		op.Fn = "EdPrivToX"
	case 12:
		op.Fn = "EdPubToX"
		if r.Chance(1, 3) {
			e := Entry{K: []string{"smA", "udA", "ncA", "mix", "fA"}[r.Intn(5)], P: r.Intn(1 << 16)}
			op.E = &e
		}
	}
	return op
}

func genPoolMain(seed uint64, n int) int {
	ops := make([]*Op, n)
	for i := range ops {
		r := NewRng(seed, lbl("pool"), uint64(i))
		ops[i] = genPoolOp(r)
		// Sibling ops: same signer keys, messages and (mostly) signatures as an
		// earlier op, with one thing changed. A cache or scratch state keyed too
		// coarsely returns the earlier op's answer for the later one.
		if i > 0 && r.Chance(1, 3) {
			j := r.Intn(i)
			if sib := siblingOf(r, ops[j]); sib != nil {
				sib.Sib = j + 1
				ops[i] = sib
			}
		}
	}
	// every exported function at least twice, whatever the draw was
	all := []string{"GenerateKey", "NewKeyFromSeed", "Sign", "PrivSign", "Verify", "VerifyOpts", "VerifyBatch", "Public", "Seed", "PrivEqual", "PubEqual",
		"X25519", "ScalarBaseMult", "ScalarMult", "EdPrivToX", "EdPubToX"}
	slot := n - 1
	for _, fn := range all {
		have := 0
		for _, op := range ops {
			if op.Fn == fn {
				have++
			}
		}
		for k := 0; have < 2 && k < 4000 && slot >= 0; k++ {
			op := genPoolOp(NewRng(seed, lbl("pool-fill"), lbl(fn), uint64(k)))
			if op.Fn != fn || len(op.Entries) > 70 {
				continue
			}
			// do not evict the last representative of another kind
			cnt := 0
			for _, o := range ops {
				if o.Fn == ops[slot].Fn {
					cnt++
				}
			}
			if cnt <= 2 {
				slot--
				continue
			}
			ops[slot] = op
			slot--
			have++
		}
	}
	// ... and at least two batches of three chunks or more: pipelines and rings
	// of buffers inside one call only wrap around from the third chunk on
	big := 0
	for _, op := range ops {
		if op.Fn == "VerifyBatch" && len(op.Entries) >= 132 {
			big++
		}
	}
	for k := 0; big < 2 && k < 4000 && slot >= 0; k++ {
		r := NewRng(seed, lbl("pool-fill"), lbl("three-chunks"), uint64(k))
		op, _ := genBatchOp(r, 200)
		if len(op.Entries) < 132 || len(op.Entries) > 200 {
			continue
		}
		cnt := 0
		for _, o := range ops {
			if o.Fn == ops[slot].Fn {
				cnt++
			}
		}
		if cnt <= 2 || (ops[slot].Fn == "VerifyBatch" && len(ops[slot].Entries) >= 132) {
			slot--
			continue
		}
		ops[slot] = op
		slot--
		big++
	}
	// ... and one verification and one signature over a message of 64 KiB or
	// more: size thresholds inside the library (a goroutine for long messages,
	// hashing in pieces) are not reached by ordinary lengths
	haveBigV, haveBigS := false, false
	for _, op := range ops {
		if (op.Fn == "Verify" || op.Fn == "VerifyOpts") && op.E != nil && op.E.ML >= 65536 {
			haveBigV = true
		}
		if (op.Fn == "Sign" || op.Fn == "PrivSign") && op.ML >= 65536 {
			haveBigS = true
		}
	}
	for k := 0; (!haveBigV || !haveBigS) && k < 4000 && slot >= 0; k++ {
		op := genPoolOp(NewRng(seed, lbl("pool-fill"), lbl("long-message"), uint64(k)))
		isV := (op.Fn == "Verify" || op.Fn == "VerifyOpts") && op.E != nil && op.KL == 0 && op.SL == 0
		isS := (op.Fn == "Sign" || op.Fn == "PrivSign") && op.KL == 0 && op.Opt.Hash != 1
		if !(isV && !haveBigV) && !(isS && !haveBigS) {
			continue
		}
		cnt := 0
		for _, o := range ops {
			if o.Fn == ops[slot].Fn {
				cnt++
			}
		}
		if cnt <= 2 || (ops[slot].Fn == "VerifyBatch" && len(ops[slot].Entries) >= 132) {
			slot--
			continue
		}
		big := []int{65537, 70001, 131073}[k%3]
		if isV {
			op.E.ML = big
			haveBigV = true
		} else {
			op.ML = big
			haveBigS = true
		}
		ops[slot] = op
		slot--
	}
	b, _ := json.Marshal(ops)
	os.Stdout.Write(append(b, '\n'))
	return 0
}

func cloneOp(op *Op) *Op {
	b, _ := json.Marshal(op)
	var n Op
	json.Unmarshal(b, &n)
	return &n
}

func siblingOf(r *Rng, base *Op) *Op {
	op := cloneOp(base)
	switch op.Fn {
	case "Verify", "VerifyOpts":
		if op.Fn == "VerifyOpts" && op.E != nil && r.Chance(1, 2) {
			for _, k := range zipOnlyKinds {
				if op.E.K == k {
					// the very same bytes under the other rule set
					op.Opt.Zip = !op.Opt.Zip
					return op
				}
			}
		}
		kinds := []string{"ok", "msg", "fS", "fR", "fA", "sL"}
		e := Entry{K: kinds[r.Intn(len(kinds))], P: r.Intn(1 << 16)}
		if op.E != nil {
			e.ML, e.Key = op.E.ML, op.E.Key
			if e.K == op.E.K {
				e.K = "ok"
			}
		}
		op.E = &e
		if op.Fn == "VerifyOpts" && r.Chance(1, 3) {
			op.Opt.Zip = !op.Opt.Zip
		}
	case "VerifyBatch":
		n := len(op.Entries)
		if n == 0 {
			return nil
		}
		switch r.Intn(3) {
		case 0: // one entry flips between good and bad
			i := r.Intn(n)
			if op.Entries[i].K == "ok" {
				op.Entries[i].K = []string{"msg", "fS", "fR"}[r.Intn(3)]
				op.Entries[i].P = r.Intn(1 << 16)
			} else {
				op.Entries[i].K = "ok"
			}
		case 1: // a shorter batch with the same leading entries
			op.Entries = op.Entries[:r.Range(1, n)]
		case 2: // all entries repaired
			for i := range op.Entries {
				op.Entries[i].K = "ok"
			}
		}
	case "Sign", "PrivSign":
		if r.Chance(1, 3) && op.KL == 0 {
			op.Other = 1 - op.Other // same public half, foreign seed (or back)
		} else if r.Chance(1, 2) {
			op.ML = op.ML + 1
		} else if op.Fn == "PrivSign" && op.Opt.Form == 0 && op.Opt.Hash <= 1 {
			op.Opt.Ctx = (op.Opt.Ctx + 1) % 256
		} else {
			op.ML = op.ML / 2
		}
	case "X25519":
		op.Pt = (op.Pt + 1 + r.Intn(2)) % 4
	case "ScalarMult", "ScalarBaseMult":
		// the array API right behind itself with the same output array:
		// an honest point, then a low-order one (or the other way round)
		op.Fn = "ScalarMult"
		if base.Fn == "ScalarMult" && base.Pt == 3 {
			op.Pt = 0
		} else {
			op.Pt = 3
			op.ML = r.Intn(8)
		}
	case "GenerateKey":
		op.NilRd = !op.NilRd
	default:
		return nil
	}
	return op
}

func loadPool(path string) []*Op {
	b, err := os.ReadFile(path)
	if err != nil {
		infra("pool: %v", err)
	}
	var ops []*Op
	if err := json.Unmarshal(b, &ops); err != nil {
		infra("pool: %v", err)
	}
	return ops
}

// Ref is the solo reference of one pool op: its complete outcome when it is
// the first and only library call of a fresh process.
type Ref struct {
	T      string  `json:"t"`
	I      int     `json:"i"`
	Digest string  `json:"digest"`
	Pts    int64   `json:"pts"`
	Fn     string  `json:"fn"`
	Sync   []int64 `json:"sync,omitempty"` // steps at which the call performed synchronisation operations
}

func soloMain(poolFile string, index, count int) int {
	installHooks()
	ops := loadPool(poolFile)
	for i := index; i < index+count && i < len(ops); i++ {
		p := prepare(ops[i])
		zzsimrt.RecordSync(true)
		zzsimrt.TakeSync()
		out := execOp(p)
		sync := zzsimrt.TakeSync()
		zzsimrt.RecordSync(false)
		p.G.Release()
		emit(Ref{T: "ref", I: i, Digest: out.Digest(), Pts: out.Pts, Fn: ops[i].Fn, Sync: sync})
	}
	return 0
}

// ---------------------------------------------------------------- episodes

type Grant struct {
	C int   `json:"c"`
	S int64 `json:"s"`
	G bool  `json:"gc,omitempty"` // forced GC before this grant
}

// Episode is one simulated execution of the concurrency engine.
type Episode struct {
	Idx     int     `json:"idx"`
	Family  string  `json:"family"`
	Clients [][]int `json:"clients"` // pool indices per client
	Slice   int64   `json:"slice,omitempty"`
	SSeed   uint64  `json:"sseed,string"` // schedule stream
	GCper   int     `json:"gcper,omitempty"`
	// Explicit schedule: when present it is followed instead of being drawn.
	Grants []Grant `json:"grants,omitempty"`
	// Self-contained replay files carry the ops themselves.
	Ops map[string]*Op `json:"ops,omitempty"`
}

const episodePtsCap = 2500000

// sweepPlan enumerates single-preemption schedules: for every ordered pair
// (a, b) of short pool ops of different kinds, client 0 runs a up to point p,
// client 1 runs b to completion, client 0 finishes - for every p on a grid
// over a's measured solo length. Exhaustive over that grid; the grid is every
// point for ops of up to sweepGrid points.
const sweepGrid = 240

type sweepItem struct {
	a, b int
	p    int64
}

func sweepPlan(pool []*Op, refs []Ref) []sweepItem {
	var short []int
	seen := map[string]int{}
	for i, op := range pool {
		if refs[i].Pts > 0 && refs[i].Pts <= 60000 && seen[op.Fn] < 2 && len(op.Entries) <= 5 {
			seen[op.Fn]++
			short = append(short, i)
		}
	}
	var items []sweepItem
	// first: preempt a right after each of its synchronisation operations
	// (the places where an atomicity violation without a data race lives)
	for _, a := range short {
		seen := map[int64]bool{}
		for _, sp := range refs[a].Sync {
			for _, p := range []int64{sp, sp + 1} {
				if p < 1 || p > refs[a].Pts || seen[p] {
					continue
				}
				seen[p] = true
				for _, b := range short {
					items = append(items, sweepItem{a, b, p})
				}
			}
		}
	}
	for _, a := range short {
		n := refs[a].Pts
		step := n / sweepGrid
		if step < 1 {
			step = 1
		}
		for _, b := range short {
			for p := int64(1); p <= n; p += step {
				items = append(items, sweepItem{a, b, p})
			}
		}
	}
	return items
}

var fnKinds = []string{"VerifyBatch", "Verify", "VerifyOpts", "Sign", "PrivSign", "GenerateKey", "NewKeyFromSeed", "X25519", "ScalarBaseMult", "ScalarMult", "EdPubToX", "EdPrivToX", "Public", "PubEqual"}

// genFirstUse: the first thing this process does with the library is that
// 2..4 clients call the same kind of function at the same time, in lockstep.
// Lazily initialised state (a table built on first use, a "checked" flag, a
// sync.Once forgotten) is only ever exposed in this window.
func genFirstUse(seed uint64, worker, idx, n int, pool []*Op) *Episode {
	r := NewRng(seed, lbl("firstuse"), uint64(n))
	fn := fnKinds[n%len(fnKinds)]
	var cand []int
	for i, op := range pool {
		if op.Fn == fn && len(op.Entries) <= 70 {
			cand = append(cand, i)
		}
	}
	if len(cand) == 0 {
		return nil
	}
	ep := &Episode{Idx: idx, Family: "twins", SSeed: r.U64(), Slice: []int64{64, 128, 256, 512}[r.Intn(4)]}
	T := 2 + r.Intn(3)
	list := []int{cand[(n/len(fnKinds))%len(cand)]}
	if r.Chance(1, 2) {
		list = append(list, cand[r.Intn(len(cand))])
	}
	for c := 0; c < T; c++ {
		ep.Clients = append(ep.Clients, append([]int{}, list...))
	}
	return ep
}

func genEpisode(seed uint64, worker, idx int, pool []*Op, refs []Ref, force string) *Episode {
	r := NewRng(seed, lbl("episode"), uint64(worker), uint64(idx))
	ep := &Episode{Idx: idx, SSeed: r.U64()}
	fam := r.Pick(35, 35, 20, 10)
	ep.Family = []string{"rand", "twins", "pct", "seq"}[fam]
	if force != "" {
		ep.Family = force
	}
	T := []int{2, 2, 2, 3, 3, 4, 4, 5, 6, 8}[r.Intn(10)]
	k := r.Range(1, 5)
	switch ep.Family {
	case "twins":
		T = []int{2, 2, 3, 4}[r.Intn(4)]
		k = r.Range(1, 3)
		ep.Slice = []int64{64, 128, 256, 512, 1024, 2048, 4096}[r.Intn(7)]
	case "seq":
		T = 1
		k = r.Range(3, 12)
	}
	if r.Chance(1, 5) {
		ep.GCper = r.Range(5, 60)
	}
	// optionally restrict to one kind of function (dense same-path overlap)
	only := ""
	if r.Chance(1, 3) {
		only = pool[r.Intn(len(pool))].Fn
	}
	budget := int64(episodePtsCap)
	// siblings of an op (same keys and messages, one thing changed) are often
	// scheduled right behind it: "last input" caches are only wrong for the
	// very next call
	sibs := map[int][]int{}
	for i, op := range pool {
		if op.Sib > 0 {
			sibs[op.Sib-1] = append(sibs[op.Sib-1], i)
			sibs[i] = append(sibs[i], op.Sib-1)
		}
	}
	pending := -1
	draw0 := func() int { return 0 }
	draw := func() int {
		if pending >= 0 {
			i := pending
			pending = -1
			return i
		}
		i := draw0()
		if l := sibs[i]; len(l) > 0 && r.Chance(1, 2) {
			pending = l[r.Intn(len(l))]
		}
		return i
	}
	draw0 = func() int {
		for tries := 0; tries < 30; tries++ {
			i := r.Intn(len(pool))
			if only != "" && pool[i].Fn != only && tries < 20 {
				continue
			}
			if refs[i].Pts <= budget || tries >= 25 && refs[i].Pts < 200000 {
				budget -= refs[i].Pts
				return i
			}
		}
		// cheapest op as a last resort
		best := 0
		for i := range pool {
			if refs[i].Pts < refs[best].Pts {
				best = i
			}
		}
		return best
	}
	if ep.Family == "twins" {
		budget /= int64(T)
		var list []int
		for j := 0; j < k; j++ {
			list = append(list, draw())
		}
		for c := 0; c < T; c++ {
			ep.Clients = append(ep.Clients, append([]int{}, list...))
		}
		return ep
	}
	for c := 0; c < T; c++ {
		var list []int
		kk := k
		if ep.Family != "seq" {
			kk = r.Range(1, k)
		}
		for j := 0; j < kk; j++ {
			list = append(list, draw())
		}
		ep.Clients = append(ep.Clients, list)
	}
	return ep
}

// ConcStats aggregates a worker's run of the concurrency engine.
type ConcStats struct {
	T          string         `json:"t"`
	Config     string         `json:"config"`
	Worker     int            `json:"worker"`
	Seed       uint64         `json:"seed"`
	Episodes   int            `json:"episodes"`
	Calls      int            `json:"calls"`
	Points     int64          `json:"points"`
	Switches   int            `json:"switches"`
	Preempt    int            `json:"preemptions_inside_op"`
	Blocked    int            `json:"blocked_yields"`
	Spawned    int            `json:"library_goroutines"`
	Leaked     int            `json:"leaked_library_goroutines"`
	GCs        int            `json:"forced_gcs"`
	Families   map[string]int `json:"families"`
	Overlap    map[string]int `json:"overlap"`
	FnCalls    map[string]int `json:"fn_calls"`
	Fired      map[string]int `json:"fired"`
	Concurrent int            `json:"episodes_with_overlap"`
	SchedSigs  []string       `json:"sched_sigs"`
	Samples    []interface{}  `json:"samples"`
	Notes      map[string]int `json:"notes,omitempty"`
	Viol       int            `json:"violations"`
	WallS      float64        `json:"wall_s"`
	SimNs      int64          `json:"sim_ns"`
	SimJumps   int64          `json:"sim_jumps"`
	FirstIdx   int            `json:"first_idx"`
	LastIdx    int            `json:"last_idx"`
	sigs       map[string]bool
}

type concArgs struct {
	config   string
	seed     uint64
	worker   int
	pool     string
	ref      string
	from, to int
	dur      time.Duration
	caseFile string
	trace    bool
	family   string
	dumpep   bool
	firstuse int
	eidx, en int
	grantlog string
}

func loadRefs(path string, n int) []Ref {
	b, err := os.ReadFile(path)
	if err != nil {
		infra("refs: %v", err)
	}
	var refs []Ref
	if err := json.Unmarshal(b, &refs); err != nil {
		infra("refs: %v", err)
	}
	out := make([]Ref, n)
	seen := 0
	for _, r := range refs {
		if r.I >= 0 && r.I < n {
			if out[r.I].T == "" {
				seen++
			}
			out[r.I] = r
		}
	}
	if seen != n {
		infra("refs: have %d of %d references", seen, n)
	}
	return out
}

type clientState struct {
	ops   []*Prepared
	outs  []*Outcome
	opIdx int
	inOp  bool
	prog  int64
	done  bool
	child bool // a goroutine started by the library itself
}

// safeExec: if examining what the library returned blows up (a result of a
// shape no correct implementation returns), that is an outcome - one that can
// never equal the solo reference of a healthy tree - not a crash of the worker.
func safeExec(p *Prepared) (o *Outcome) {
	defer func() {
		if r := recover(); r != nil {
			if _, ok := r.(zzsimrt.BudgetExceeded); ok {
				panic(r)
			}
			o = &Outcome{Panic: fmt.Sprintf("malformed result: the harness could not examine what %s returned: %v", p.Op.Fn, r), Fn: p.Op.Fn}
		}
	}()
	return execOp(p)
}

func clientMain(id int, cs *clientState, wg *sync.WaitGroup) {
	defer wg.Done()
	debug.SetPanicOnFault(true)
	zzsimrt.ClientStart(id)
	for _, p := range cs.ops {
		o := safeExec(p)
		cs.outs = append(cs.outs, o)
		zzsimrt.Yield(zzsimrt.KOpDone)
	}
	zzsimrt.Yield(zzsimrt.KTaskDone)
}

// runEpisode executes one episode under the baton and returns the recorded
// schedule and any violation of R1/R3/R4 (R2, the race detector, ends the
// process by itself with exit code 66).
func runEpisode(ep *Episode, pool []*Op, refs []Ref, st *ConcStats, a *concArgs) (viol *ViolationRec) {
	T := len(ep.Clients)
	prepared := map[int]*Prepared{}
	cl := make([]*clientState, T)
	for c, list := range ep.Clients {
		cl[c] = &clientState{}
		for _, pi := range list {
			p, ok := prepared[pi]
			if !ok {
				p = prepare(pool[pi])
				prepared[pi] = p
			}
			cl[c].ops = append(cl[c].ops, p)
		}
	}
	zzsimrt.InitBaton(T)
	var wg sync.WaitGroup
	for c := 0; c < T; c++ {
		wg.Add(1)
		go clientMain(c, cl[c], &wg)
	}
	r := NewRng(ep.SSeed, lbl("sched"))
	live := T
	for c := 0; c < T; c++ {
		if len(cl[c].ops) == 0 {
			// it will report task-done on its first grant
		}
	}
	var prio []int
	top := T // top-level clients; ids >= top are goroutines the library started
	topLive := T
	// adopt registers goroutines the library started since the last look
	adopt := func() {
		for _, id := range zzsimrt.TakeSpawned() {
			for len(cl) <= id {
				cl = append(cl, &clientState{child: true, done: true})
			}
			cl[id] = &clientState{child: true}
			for len(prio) <= id {
				prio = append(prio, 0)
			}
			prio[id] = r.Intn(2*len(cl) + 2)
			live++
			st.Spawned++
		}
		T = len(cl)
	}
	var grants []Grant
	explicit := ep.Grants != nil
	gi := 0
	last := -1
	blockedStreak := 0
	// PCT state
	prio = make([]int, T)
	for i := range prio {
		prio[i] = i
	}
	for i := T - 1; i > 0; i-- {
		j := r.Intn(i + 1)
		prio[i], prio[j] = prio[j], prio[i]
	}
	var est int64
	for _, list := range ep.Clients {
		for _, pi := range list {
			est += refs[pi].Pts
		}
	}
	var changes []int64
	if ep.Family == "pct" {
		d := r.Range(1, 3) + T/3
		for i := 0; i < d; i++ {
			changes = append(changes, 1+int64(r.U64()%uint64(est+1)))
		}
		sort.Slice(changes, func(i, j int) bool { return changes[i] < changes[j] })
	}
	lowest := -1
	start := zzsimrt.Total()
	blockedSet := map[int]bool{}
	sigAcc := uint64(1469598103934665603)
	twinPhase := true
	overlapped := false
	for live > 0 {
		var g Grant
		if explicit {
			// follow the recorded schedule; entries naming finished clients are skipped
			for gi < len(ep.Grants) && (ep.Grants[gi].C >= T || cl[ep.Grants[gi].C].done) {
				gi++
			}
			if gi < len(ep.Grants) {
				g = ep.Grants[gi]
				gi++
			} else {
				for c := 0; c < T; c++ {
					if !cl[(last+1+c)%T].done {
						g = Grant{C: (last + 1 + c) % T}
						break
					}
				}
			}
		} else {
			switch ep.Family {
			case "seq":
				g = Grant{C: 0}
			case "twins":
				c := (last + 1) % T
				for cl[c].done || blockedSet[c] && len(blockedSet) < live {
					c = (c + 1) % T
				}
				g = Grant{C: c, S: ep.Slice}
				if twinPhase {
					g.S = 1 + ep.Slice*int64(c+1)/int64(T+1)
					if c == T-1 {
						twinPhase = false
					}
				}
			case "pct":
				best := -1
				for c := 0; c < T; c++ {
					if cl[c].done || (blockedSet[c] && len(blockedSet) < live) {
						continue
					}
					if best < 0 || prio[c] > prio[best] {
						best = c
					}
				}
				g = Grant{C: best}
				used := zzsimrt.Total() - start
				for len(changes) > 0 && changes[0] <= used {
					changes = changes[1:]
				}
				if len(changes) > 0 {
					g.S = changes[0] - used
				}
			default: // rand
				var cand []int
				for c := 0; c < T; c++ {
					if !cl[c].done && !(blockedSet[c] && len(blockedSet) < live) {
						cand = append(cand, c)
					}
				}
				g = Grant{C: cand[r.Intn(len(cand))]}
				switch r.Pick(50, 30, 20, 25) {
				case 3:
					g.S = zzsimrt.UntilSync // up to and including the next lock/unlock/pool/map/channel operation
				case 0:
					g.S = int64(r.Range(1, 2000))
				case 1:
					g.S = int64(r.Range(2000, 20000))
				case 2:
					g.S = int64(r.Range(20000, 200000))
				}
			}
			if ep.GCper > 0 && r.Intn(ep.GCper) == 0 {
				g.G = true
			}
		}
		// whatever the family chose: never hand the baton to a client that is
		// known to be blocked (or done) while another one can still run - a
		// caller waiting for goroutines the library started must let them run
		if cl[g.C].done || (blockedSet[g.C] && len(blockedSet) < live) {
			for c := 0; c < T; c++ {
				if !cl[c].done && !blockedSet[c] {
					g.C = c
					break
				}
			}
		}
		if len(blockedSet) >= live {
			// everybody reported blocked: ask each one again, in turn
			for k := 1; k <= T; k++ {
				if c := (last + k + T) % T; !cl[c].done {
					g.C = c
					break
				}
			}
		}
		if g.G {
			runtime.GC()
			st.GCs++
		}
		// overlap bookkeeping: whom do we resume next to which half-done calls?
		cs := cl[g.C]
		if cs.opIdx < len(cs.ops) {
			me := cs.ops[cs.opIdx].Op.Fn
			for d := 0; d < T; d++ {
				if d != g.C && cl[d].inOp && !cl[d].done && cl[d].opIdx < len(cl[d].ops) {
					a, b := me, cl[d].ops[cl[d].opIdx].Op.Fn
					if a > b {
						a, b = b, a
					}
					st.Overlap[a+"|"+b]++
					overlapped = true
				}
			}
		}
		grants = append(grants, g)
		if grantLog != nil {
			gc := 0
			if g.G {
				gc = 1
			}
			fmt.Fprintf(grantLog, "%d %d %d\n", g.C, g.S, gc)
		}
		hb := zzsimrt.Handoffs()
		t0 := zzsimrt.Total()
		who, kind := zzsimrt.Grant(g.C, g.S)
		adopt()
		if zzsimrt.Total() != t0 && kind == zzsimrt.KBlocked {
			// it executed library code before it blocked (again): progress
			blockedStreak = 0
			blockedSet = map[int]bool{}
		}
		if who != g.C {
			if zzsimrt.Handoffs() == hb || who < 0 || who >= T {
				infra("baton: granted client %d, client %d answered", g.C, who)
			}
			// the granted client completed a rendezvous on an unbuffered
			// channel and the baton went on to its partner(s): progress was
			// made, and the report we got is the partner's
			blockedStreak = 0
			blockedSet = map[int]bool{}
			g.C = who
			cs = cl[who]
		}
		st.Switches++
		last = g.C
		switch kind {
		case zzsimrt.KPreempt:
			st.Preempt++
			cs.inOp = true
			if g.S > 0 {
				cs.prog += g.S
			}
			blockedStreak = 0
			blockedSet = map[int]bool{}
			if ep.Family == "pct" && !explicit {
				prio[g.C] = lowest
				lowest--
			}
			dec := int64(9)
			if !cs.child && cs.opIdx < len(cs.ops) {
				if sp := refs[ep.Clients[g.C][cs.opIdx]].Pts; sp > 0 && cs.prog*10/sp < 9 {
					dec = cs.prog * 10 / sp
				}
				sigAcc = mix64(sigAcc ^ uint64(g.C)<<32 ^ lbl(cs.ops[cs.opIdx].Op.Fn) ^ uint64(dec))
			}
		case zzsimrt.KOpDone:
			cs.inOp = false
			cs.prog = 0
			cs.opIdx++
			blockedStreak = 0
			blockedSet = map[int]bool{}
			sigAcc = mix64(sigAcc ^ uint64(g.C)<<32 ^ 0xd0e)
		case zzsimrt.KTaskDone:
			cs.done = true
			live--
			if !cs.child {
				topLive--
			} else {
				zzsimrt.Release(g.C)
			}
			blockedStreak = 0
			blockedSet = map[int]bool{}
		case zzsimrt.KBlocked:
			st.Blocked++
			blockedStreak++
			blockedSet[g.C] = true
			// "everybody is blocked" only counts once everybody has been asked
			// again since the last progress (round robin, see above): what one
			// client did just before it blocked - announce itself as a receiver,
			// leave an element in a channel, release a lock - may be exactly
			// what another one, marked blocked earlier, was waiting for
			settled := len(blockedSet) >= live && blockedStreak >= 2*live+2
			if settled && zzsimrt.AdvanceClock() {
				// everybody waits: simulated time jumps to the next timer or wake-up
				blockedSet = map[int]bool{}
				blockedStreak = 0
				adopt()
				break
			}
			if topLive == 0 && settled {
				// only goroutines of the library are left and none can run:
				// they are leaked, not deadlocked callers; leave them parked
				st.Leaked += live
				live = 0
				break
			}
			if len(blockedSet) >= live && blockedStreak > 4*live+8 {
				// every live client is spinning on a lock nobody can release
				v := &ViolationRec{T: "violation", Prop: "C15", CheckID: "conc-deadlock", Engine: "conc",
					Msg: fmt.Sprintf("deadlock: all %d live clients are blocked on locks or channel slots that none of them can release", live)}
				ep2 := *ep
				ep2.Grants = grants
				v.Case = &Case{Prop: "C15", Check: "episode"}
				emitEpisodeViolation(v, &ep2, pool, a)
				os.Exit(1)
			}
		default:
			infra("baton: unknown kind %d", kind)
		}
	}
	wg.Wait()
	zzsimrt.StopBaton()
	defer func() {
		for _, p := range prepared {
			p.G.Release()
		}
	}()
	st.Points += zzsimrt.Total() - start
	st.Families[ep.Family]++
	if overlapped {
		st.Concurrent++
		st.sigs[fmt.Sprintf("%016x", sigAcc)] = true
	}
	// R1 / R3 / R4: every outcome equals its solo reference
	if ep.Idx%8 == 5 {
		runtime.GC() // finalizers, if the library set any, before the results are looked at again
		runtime.GC()
		for i := 0; i < 20; i++ {
			runtime.Gosched()
		}
	}
	if zzsimrt.ChildOverrun() && viol == nil {
		// inconclusive (see execOp): counted, no comparison made for this episode
		st.Fired["inconclusive_library_goroutine_past_its_step_budget"]++
		return nil
	}
	for c := 0; c < top; c++ {
		for j, o := range cl[c].outs {
			pi := ep.Clients[c][j]
			st.Calls++
			st.FnCalls[pool[pi].Fn]++
			if o.Dev != nil {
				if o.Dev.ErrKind != 0 {
					st.Fired["device_error"]++
				}
				if o.Dev.Shorts > 0 {
					st.Fired["short_read"]++
				}
				if o.Dev.Stalls > 0 {
					st.Fired["stall"]++
				}
			}
			if o.Panic == devPanicMsg {
				st.Fired["reader_panic"]++
			} else if o.Panic != "" && !o.Budget {
				st.Fired["documented_or_other_panic"]++
			}
			if (o.Fault || o.ArgModified) && viol == nil {
				// absolute, not relative to the solo run: the library wrote to
				// an input that every client shares
				viol = &ViolationRec{T: "violation", Prop: "C15", CheckID: "conc-input-modified", Engine: "conc",
					Msg:      fmt.Sprintf("client %d op %d (%s, pool #%d) wrote to a caller-owned input (read-only page fault, or an argument array that came back changed)", c, j, pool[pi].Fn, pi),
					Expected: "inputs are only read", Actual: o.Digest()}
			}
			if !o.Stable() && viol == nil {
				viol = &ViolationRec{T: "violation", Prop: "C15", CheckID: "conc-result-changed-later", Engine: "conc",
					Msg:      fmt.Sprintf("client %d op %d (%s, pool #%d): what the call returned (bytes or error value) changed after later calls were made", c, j, pool[pi].Fn, pi),
					Expected: o.snap, Actual: o.snapshot()}
			}
			if o.AliasesInput && viol == nil {
				viol = &ViolationRec{T: "violation", Prop: "C15", CheckID: "conc-result-aliases-input", Engine: "conc",
					Msg:      fmt.Sprintf("client %d op %d (%s, pool #%d) returned a slice that points into the shared, read-only input it was given", c, j, pool[pi].Fn, pi),
					Expected: "a fresh object", Actual: o.Digest()}
			}
			if d := o.Digest(); d != refs[pi].Digest && viol == nil {
				check := "conc-isolation"
				msg := fmt.Sprintf("client %d op %d (%s, pool #%d) returned something else than the same call executed alone in a fresh process", c, j, pool[pi].Fn, pi)
				if ep.Family == "seq" {
					check = "conc-history"
					msg = fmt.Sprintf("sequential call %d (%s, pool #%d) returned something else than the same call executed first in a fresh process", j, pool[pi].Fn, pi)
				}
				if !o.Intact {
					check = "conc-input-modified"
					msg = fmt.Sprintf("client %d op %d (%s): a shared input was modified", c, j, pool[pi].Fn)
				}
				if o.Budget {
					check = "conc-progress"
					msg = fmt.Sprintf("client %d op %d (%s) did not finish within its step budget (solo: %d steps)", c, j, pool[pi].Fn, refs[pi].Pts)
				}
				viol = &ViolationRec{T: "violation", Prop: "C15", CheckID: check, Msg: msg, Expected: refs[pi].Digest, Actual: d, Engine: "conc"}
			}
		}
	}
	// What a call returned belongs to its caller. Overwrite every returned
	// byte slice now: if the library kept a reference (a memo or a pool that
	// shares storage with a result), a later episode's call returns garbage.
	for c := 0; c < top; c++ {
		for _, o := range cl[c].outs {
			if o.AliasesInput {
				continue
			}
			for _, b := range [][]byte{o.b, o.b2} {
				for i := range b {
					b[i] ^= 0xa5
				}
			}
			for i := range o.valid {
				o.valid[i] = !o.valid[i]
			}
		}
	}
	ep.Grants = grants
	return viol
}

func emitEpisodeViolation(v *ViolationRec, ep *Episode, pool []*Op, a *concArgs) {
	ep2 := *ep
	ep2.Ops = map[string]*Op{}
	for _, list := range ep.Clients {
		for _, pi := range list {
			ep2.Ops[fmt.Sprint(pi)] = pool[pi]
		}
	}
	v.Config, v.Seed, v.Worker, v.Index = a.config, a.seed, a.worker, ep.Idx
	emit(struct {
		*ViolationRec
		Episode *Episode `json:"episode"`
	}{v, &ep2})
}

var grantLog *os.File

func concMain(a concArgs) int {
	installHooks()
	noChunkReuse = false // episodes release everything at their end: recycling between episodes models buffer reuse across calls
	if a.grantlog != "" {
		f, err := os.OpenFile(a.grantlog, os.O_CREATE|os.O_WRONLY|os.O_TRUNC, 0o644)
		if err != nil {
			infra("grantlog: %v", err)
		}
		grantLog = f
	}
	debug.SetGCPercent(int(20 + derive(a.seed, lbl("gogc"), uint64(a.worker))%380))
	start := time.Now()
	st := &ConcStats{T: "stats", Config: a.config, Worker: a.worker, Seed: a.seed, Families: map[string]int{}, Overlap: map[string]int{},
		FnCalls: map[string]int{}, Fired: map[string]int{}, sigs: map[string]bool{}}
	var pool []*Op
	var refs []Ref
	var fixed *Episode
	if a.caseFile != "" {
		b, err := os.ReadFile(a.caseFile)
		if err != nil {
			infra("case: %v", err)
		}
		var rec struct {
			Episode *Episode `json:"episode"`
		}
		if err := json.Unmarshal(b, &rec); err != nil || rec.Episode == nil {
			infra("case file has no episode: %v", err)
		}
		fixed = rec.Episode
		// rebuild a dense pool from the embedded ops
		remap := map[int]int{}
		var keys []int
		for k := range fixed.Ops {
			var i int
			fmt.Sscan(k, &i)
			keys = append(keys, i)
		}
		sort.Ints(keys)
		for _, k := range keys {
			remap[k] = len(pool)
			pool = append(pool, fixed.Ops[fmt.Sprint(k)])
		}
		for c := range fixed.Clients {
			for j := range fixed.Clients[c] {
				fixed.Clients[c][j] = remap[fixed.Clients[c][j]]
			}
		}
		if a.ref == "" {
			// print the dense pool so the orchestrator can compute references
			out, _ := json.Marshal(pool)
			os.Stdout.Write(append(out, '\n'))
			return 0
		}
		refs = loadRefs(a.ref, len(pool))
	} else {
		pool = loadPool(a.pool)
		refs = loadRefs(a.ref, len(pool))
	}
	viols := 0
	deadline := start.Add(a.dur)
	idx := a.from
	st.FirstIdx = idx
	var sweep []sweepItem
	if a.family == "sweep" && fixed == nil {
		sweep = sweepPlan(pool, refs)
		st.Notes = map[string]int{"sweep_total": len(sweep)}
		if a.en < 1 {
			a.en = 1
		}
		for idx%a.en != a.eidx {
			idx++
		}
	}
	for {
		if sweep != nil && idx >= len(sweep) {
			st.Notes["sweep_complete"] = 1
			break
		}
		if fixed == nil {
			if a.to >= 0 && idx >= a.to {
				break
			}
			if a.to < 0 && !time.Now().Before(deadline) {
				break
			}
		}
		var ep *Episode
		if fixed != nil {
			ep = fixed
		} else {
			if sweep != nil {
				it := sweep[idx]
				ep = &Episode{Idx: idx, Family: "sweep", SSeed: uint64(idx), Clients: [][]int{{it.a}, {it.b}},
					Grants: []Grant{{C: 0, S: it.p}, {C: 1, S: 0}, {C: 0, S: 0}}}
			} else {
				ep = genEpisode(a.seed, a.worker, idx, pool, refs, a.family)
			}
			if a.firstuse >= 0 && idx == a.from && a.family == "" {
				if fu := genFirstUse(a.seed, a.worker, idx, a.firstuse, pool); fu != nil {
					ep = fu
					st.Families["first-use-twins"]++
				}
			}
		}
		if a.dumpep {
			ep2 := *ep
			ep2.Ops = map[string]*Op{}
			for _, list := range ep.Clients {
				for _, pi := range list {
					ep2.Ops[fmt.Sprint(pi)] = pool[pi]
				}
			}
			emit(map[string]interface{}{"t": "episode", "episode": &ep2})
			return 0
		}
		emit(map[string]interface{}{"t": "ep-start", "idx": ep.Idx, "family": ep.Family, "clients": len(ep.Clients)})
		v := runEpisode(ep, pool, refs, st, &a)
		st.Episodes++
		// Goroutines of the library that are still alive when an episode is over
		// (a long-lived worker behind sync.Once, a pool with an idle timeout)
		// belong to that episode's baton session: a further episode in this
		// process would meet them parked for ever. The process ends here; the
		// next round starts a fresh one.
		endProcess := zzsimrt.LiveChildren() > 0 && fixed == nil && a.to < 0 // (sweeps too: what is left of the plan is skipped)
		if endProcess {
			if st.Notes == nil {
				st.Notes = map[string]int{}
			}
			st.Notes["process_ended_early_library_goroutines_alive"] = 1
		}
		if a.trace {
			emit(map[string]interface{}{"t": "trace", "idx": ep.Idx, "grants": len(ep.Grants), "total": zzsimrt.Total(), "viol": v != nil})
		}
		if len(st.Samples) < 2 && len(ep.Clients) > 1 {
			s := *ep
			if len(s.Grants) > 12 {
				s.Grants = s.Grants[:12]
			}
			var fns [][]string
			for _, l := range ep.Clients {
				var f []string
				for _, pi := range l {
					f = append(f, pool[pi].Fn)
				}
				fns = append(fns, f)
			}
			st.Samples = append(st.Samples, map[string]interface{}{"episode": s, "client_ops": fns, "grants_total": len(ep.Grants)})
		}
		if v != nil {
			viols++
			emitEpisodeViolation(v, ep, pool, &a)
			break
		}
		if fixed != nil {
			break
		}
		if endProcess {
			idx++
			break
		}
		idx++
		if sweep != nil {
			st.Notes["sweep_done"]++
			idx += a.en - 1
		}
	}
	st.LastIdx = idx
	st.Viol = viols
	st.WallS = time.Since(start).Seconds()
	st.SimNs, st.SimJumps = zzsimrt.SimAdvanced()
	for k := range st.sigs {
		st.SchedSigs = append(st.SchedSigs, k)
	}
	sort.Strings(st.SchedSigs)
	emit(st)
	if viols > 0 {
		return 1
	}
	return 0
}

// ---------------------------------------------------------------- canary

var canaryVar int
var canaryMu sync.Mutex

func canaryTouch(locked bool) {
	if locked {
		canaryMu.Lock()
		canaryVar++
		canaryMu.Unlock()
		return
	}
	canaryVar++
}

// canaryMain proves that the race detector is alive and blind to the baton:
// two clients, serialised by the scheduler, write one unsynchronised global.
// With -prop locked the same accesses are protected by a real mutex and the
// detector must stay silent.
func canaryMain(locked bool) int {
	zzsimrt.InitBaton(2)
	var wg sync.WaitGroup
	for c := 0; c < 2; c++ {
		wg.Add(1)
		go func(id int) {
			defer wg.Done()
			zzsimrt.ClientStart(id)
			for i := 0; i < 3; i++ {
				canaryTouch(locked)
				zzsimrt.Yield(zzsimrt.KOpDone)
			}
			zzsimrt.Yield(zzsimrt.KTaskDone)
		}(c)
	}
	live := 2
	c := 0
	done := [2]bool{}
	for live > 0 {
		if done[c] {
			c = 1 - c
		}
		_, kind := zzsimrt.Grant(c, 0)
		if kind == zzsimrt.KTaskDone {
			done[c] = true
			live--
		}
		c = 1 - c
	}
	wg.Wait()
	zzsimrt.StopBaton()
	fmt.Println("canary: finished without a race report")
	return 0
}
