package main

import (
	"errors"
	"io"
	"os"
	"syscall"

	"github.com/oasisprotocol/ed25519/zzsimrt"
)

// The simulated entropy device. Every io.Reader the library sees (including
// crypto/rand.Reader) is one of these; a per-call fault plan says how each
// Read behaves. The device never breaks the io.Reader contract itself.

var errSentinel = errors.New("simdev: injected device failure")

const (
	EOK = iota
	EEOF
	EUnexpected
	ESentinel
	EAgain    // syscall.EAGAIN: Temporary() and Timeout() are true
	EIntr     // syscall.EINTR: Temporary() is true
	EDeadline // os.ErrDeadlineExceeded: Timeout() and Temporary() are true
	nErrKinds
	// EPanic is not an error kind: the reader PANICS at the fault offset (a
	// caller-supplied reader with a bug; the caller recovers). Only the
	// concurrent engine draws it: what later calls do afterwards is the point.
	EPanic = nErrKinds
)

const devPanicMsg = "simdev: injected panic inside Read"

var errKindNames = []string{"", "err_eof", "err_unexpected_eof", "err_sentinel", "err_eagain", "err_eintr", "err_deadline", "reader_panic"}

func devErr(k int) error {
	switch k {
	case EEOF:
		return io.EOF
	case EUnexpected:
		return io.ErrUnexpectedEOF
	case ESentinel:
		return errSentinel
	case EAgain:
		return syscall.EAGAIN
	case EIntr:
		return syscall.EINTR
	case EDeadline:
		return os.ErrDeadlineExceeded
	}
	return nil
}

const (
	CUniform = iota
	CZero
	COnes
	CRepeat // one 16-byte block repeated: all randomisers equal
	CSparse // all zero except one 16-byte block
	CRamp
	COneBit
	CSmall // every 16-byte block is a small integer (1..255)
	COne   // every 16-byte block is the integer 1: the batch sum is the plain sum of the scalars
	CTwo   // every 16-byte block is the integer 2: all scalars of the equation may share the factor 2
	CPow2  // every 16-byte block is the same power of two
	CMid   // 16-byte blocks that differ in their lowest and highest three bytes only: randomisers sharing their middle limbs
	nContent
)

var contentNames = []string{"uniform", "zero", "ones", "repeat16", "sparse", "ramp", "onebit", "small", "one", "two", "pow2", "sharedmid"}

// ReadFault describes one Read call of the device (by index; stalls do not
// advance the index).
type ReadFault struct {
	Short int `json:"short,omitempty"` // deliver at most this many bytes (0 = as many as asked)
	Stall int `json:"stall,omitempty"` // this many (0,nil) returns first
	Delay int `json:"delay,omitempty"` // the read takes this many simulated milliseconds before it returns anything
}

// DevPlan is the fault plan of one library call.
type DevPlan struct {
	Content int         `json:"content,omitempty"`
	CSeed   uint64      `json:"cseed,omitempty,string"`
	Frag    int         `json:"frag,omitempty"` // >0: no read delivers more than Frag bytes
	Reads   []ReadFault `json:"reads,omitempty"`
	// FailAt > 0: the device fails once it has delivered FailAt-1 bytes in
	// total. The read that reaches that offset is clipped to it; the error is
	// returned together with that read's bytes (FailWith, if it delivered any)
	// or by the following Read. Afterwards the error is sticky.
	FailAt   int  `json:"failat,omitempty"`
	FailKind int  `json:"failkind,omitempty"`
	FailWith bool `json:"failwith,omitempty"`
	// Recover: the failure is transient - the error is reported once and the
	// following reads deliver data again (a device that was interrupted).
	Recover bool `json:"recover,omitempty"`
	Trip    bool `json:"trip,omitempty"` // tripwire: any Read at all is an event
}

// DevLog is what the device observed during one call.
type DevLog struct {
	Calls     int    `json:"calls"`
	Asked     []int  `json:"asked,omitempty"`
	Gave      []int  `json:"gave,omitempty"`
	Delivered int    `json:"delivered"`
	ErrKind   int    `json:"errkind,omitempty"` // error kind handed to the caller (0 = none)
	ErrAtByte int    `json:"erratbyte,omitempty"`
	ErrWith   bool   `json:"errwith,omitempty"`
	Recovered bool   `json:"recovered,omitempty"` // bytes were delivered after the error
	Stalls    int    `json:"stalls,omitempty"`
	DelayedMs int    `json:"delayed_ms,omitempty"`
	Shorts    int    `json:"shorts,omitempty"`
	Bytes     []byte `json:"-"`
}

type Device struct {
	plan    DevPlan
	log     DevLog
	idx     int // index into plan.Reads (advances per non-stall Read)
	stalled int
	pending int // error to deliver on the next Read
	fired   bool
	sticky  int
	block   [16]byte
}

func NewDevice(p *DevPlan) *Device {
	d := &Device{}
	if p != nil {
		d.plan = *p
	}
	copy(d.block[:], seededBytes(16, d.plan.CSeed, lbl("block")))
	return d
}

// contentByte is a pure function of (content kind, seed, stream offset), so
// fragmentation never changes what the caller ends up with.
func (d *Device) contentByte(k int) byte {
	switch d.plan.Content {
	case CZero:
		return 0
	case COnes:
		return 0xff
	case CRepeat:
		return d.block[k%16]
	case CSparse:
		if k/16 == int(d.plan.CSeed%67) {
			b := d.block[k%16]
			if k%16 == 0 {
				b |= 1
			}
			return b
		}
		return 0
	case CRamp:
		return byte(k)
	case COneBit:
		pos := int(d.plan.CSeed % (16 * 8 * 70))
		if k == pos/8 {
			return 1 << uint(pos%8)
		}
		return 0
	case COne:
		if k%16 == 0 {
			return 1
		}
		return 0
	case CTwo:
		if k%16 == 0 {
			return 2
		}
		return 0
	case CPow2:
		bit := int(d.plan.CSeed % 120)
		if k%16 == bit/8 {
			return 1 << uint(bit%8)
		}
		return 0
	case CMid:
		if j := k % 16; j >= 3 && j < 13 {
			return d.block[j]
		}
	case CSmall:
		if k%16 == 0 {
			return byte(mix64(d.plan.CSeed^uint64(k))%255) + 1
		}
		return 0
	}
	v := mix64(d.plan.CSeed ^ mix64(uint64(k/8)+0x51ed270b))
	return byte(v >> (8 * uint(k%8)))
}

func (d *Device) Read(p []byte) (int, error) {
	d.log.Calls++
	d.log.Asked = append(d.log.Asked, len(p))
	give := func(n int, e error) (int, error) {
		d.log.Gave = append(d.log.Gave, n)
		return n, e
	}
	if d.sticky != 0 {
		return give(0, devErr(d.sticky))
	}
	if d.pending != 0 {
		k := d.pending
		d.pending = 0
		d.fired = true
		if !d.plan.Recover {
			d.sticky = k
		}
		d.log.ErrKind = k
		d.log.ErrAtByte = d.log.Delivered
		return give(0, devErr(k))
	}
	if len(p) == 0 {
		return give(0, nil)
	}
	var f ReadFault
	if d.idx < len(d.plan.Reads) {
		f = d.plan.Reads[d.idx]
	}
	if d.stalled < f.Stall {
		d.stalled++
		d.log.Stalls++
		return give(0, nil)
	}
	d.stalled = 0
	d.idx++
	if f.Delay > 0 {
		// a slow or stalled source: simulated time passes (and nothing else
		// happens unless somebody set a timer)
		d.log.DelayedMs += f.Delay
		zzsimrt.SleepSim(int64(f.Delay) * 1000000)
	}
	n := len(p)
	if d.plan.Frag > 0 && n > d.plan.Frag {
		n = d.plan.Frag
	}
	if f.Short > 0 && n > f.Short {
		n = f.Short
	}
	failing := false
	if d.plan.FailAt > 0 && !d.fired {
		if rem := d.plan.FailAt - 1 - d.log.Delivered; n >= rem {
			n = rem
			failing = true
		}
	}
	if n < len(p) && !failing {
		d.log.Shorts++
	}
	for i := 0; i < n; i++ {
		p[i] = d.contentByte(d.log.Delivered + i)
	}
	d.log.Bytes = append(d.log.Bytes, p[:n]...)
	d.log.Delivered += n
	if d.fired && n > 0 && !failing {
		d.log.Recovered = true
	}
	if failing {
		k := d.plan.FailKind
		if k == 0 {
			k = ESentinel
		}
		if k == EPanic {
			d.fired = true
			d.sticky = ESentinel
			d.log.ErrKind = k
			d.log.ErrAtByte = d.log.Delivered
			d.log.ErrWith = n > 0
			d.log.Gave = append(d.log.Gave, n)
			panic(devPanicMsg)
		}
		if n == 0 || d.plan.FailWith {
			d.fired = true
			if !d.plan.Recover {
				d.sticky = k
			}
			d.log.ErrKind = k
			d.log.ErrAtByte = d.log.Delivered
			d.log.ErrWith = n > 0
			return give(n, devErr(k))
		}
		d.pending = k
	}
	return give(n, nil)
}

// ---- process-wide replacement for crypto/rand.Reader ----------------------

// globalDev dispatches to the device of the client that currently holds the
// baton. Its state is touched only under the baton, from //go:norace code: it
// stands for the operating system's entropy source, whose internals the race
// detector would not see either.
type globalDev struct{}

var curDev [zzsimrt.MaxClients]*Device

//go:norace
func setCurDev(d *Device) { curDev[zzsimrt.Cur()] = d }

// (a goroutine the library started reads crypto/rand.Reader on behalf of the
// caller whose call started it)
//
//go:norace
func getCurDev() *Device { return curDev[zzsimrt.Root(zzsimrt.Cur())] }

func (globalDev) Read(p []byte) (int, error) {
	d := getCurDev()
	if d == nil {
		// A read outside any simulated call: serve zeros, never fail.
		for i := range p {
			p[i] = 0
		}
		return len(p), nil
	}
	return d.Read(p)
}
