package main

import (
	"encoding/json"
	"os"
	"time"
)

// minimiseMain shrinks an io-engine case while the same check of the same
// property keeps failing. Candidates are executed in-process (the library
// keeps no state between calls; history-dependent failures are not minimised
// here). The result is printed as one JSON line.
func minimiseMain(rec *ViolationRec) int {
	installHooks()
	deadline := time.Now().Add(45 * time.Second)
	cur := rec.Case
	fails := func(c *Case) bool {
		v := runCase(c)
		return v.Viol != "" && v.CheckID == rec.CheckID
	}
	if !fails(cur) {
		emit(map[string]interface{}{"t": "minimised", "ok": false})
		return 0
	}
	clone := func(c *Case) *Case {
		b, _ := json.Marshal(c)
		var n Case
		json.Unmarshal(b, &n)
		return &n
	}
	try := func(mut func(c *Case) bool) bool {
		if time.Now().After(deadline) {
			return false
		}
		n := clone(cur)
		if !mut(n) {
			return false
		}
		if fails(n) {
			cur = n
			return true
		}
		return false
	}
	for pass := 0; pass < 6; pass++ {
		progress := false
		if cur.Op != nil {
			// drop entries: halves, then single entries
			for chunk := len(cur.Op.Entries) / 2; chunk >= 1; chunk /= 2 {
				for at := 0; at+chunk <= len(cur.Op.Entries); {
					a, ch := at, chunk
					if try(func(c *Case) bool {
						es := c.Op.Entries
						c.Op.Entries = append(append([]Entry{}, es[:a]...), es[a+ch:]...)
						return true
					}) {
						progress = true
					} else {
						at += chunk
					}
				}
			}
			for i := range cur.Op.Entries {
				i := i
				if cur.Op.Entries[i].K != "ok" {
					if try(func(c *Case) bool { c.Op.Entries[i] = Entry{K: "ok"}; return true }) {
						progress = true
					}
				} else if cur.Op.Entries[i].ML != 0 || cur.Op.Entries[i].Key != 0 {
					if try(func(c *Case) bool { c.Op.Entries[i] = Entry{K: "ok"}; return true }) {
						progress = true
					}
				}
			}
			simpl := []func(c *Case) bool{
				func(c *Case) bool {
					if c.Op.Rd == nil {
						return false
					}
					c.Op.Rd = nil
					return true
				},
				func(c *Case) bool {
					if c.Op.Rd == nil || len(c.Op.Rd.Reads) == 0 {
						return false
					}
					c.Op.Rd.Reads = nil
					return true
				},
				func(c *Case) bool {
					if c.Op.Rd == nil || c.Op.Rd.Frag == 0 {
						return false
					}
					c.Op.Rd.Frag = 0
					return true
				},
				func(c *Case) bool {
					if c.Op.Rd == nil || c.Op.Rd.FailAt == 0 {
						return false
					}
					c.Op.Rd.FailAt = 0
					c.Op.Rd.FailKind = 0
					c.Op.Rd.FailWith = false
					return true
				},
				func(c *Case) bool {
					if c.Op.Rd == nil || c.Op.Rd.Content == 0 {
						return false
					}
					c.Op.Rd.Content = 0
					return true
				},
				func(c *Case) bool {
					if !c.Op.NilRd {
						return false
					}
					c.Op.NilRd = false
					return true
				},
				func(c *Case) bool {
					if !c.Op.Opt.Zip {
						return false
					}
					c.Op.Opt.Zip = false
					return true
				},
				func(c *Case) bool {
					if c.Op.Opt.Ctx == 0 {
						return false
					}
					c.Op.Opt.Ctx = 0
					return true
				},
				func(c *Case) bool {
					if c.Op.Opt.Ctx <= 1 {
						return false
					}
					c.Op.Opt.Ctx = 1
					return true
				},
				func(c *Case) bool {
					if c.Op.Opt.Hash == 0 {
						return false
					}
					c.Op.Opt.Hash = 0
					return true
				},
				func(c *Case) bool {
					if c.Op.Opt.Form == 0 {
						return false
					}
					c.Op.Opt.Form = 0
					return true
				},
				func(c *Case) bool {
					if c.Op.ML == 0 {
						return false
					}
					c.Op.ML = 0
					return true
				},
				func(c *Case) bool {
					if c.Op.Skew == nil {
						return false
					}
					c.Op.Skew = nil
					return true
				},
				func(c *Case) bool {
					if c.Op.Alias == 0 {
						return false
					}
					c.Op.Alias = 0
					return true
				},
				func(c *Case) bool {
					if c.Op.KL == 0 {
						return false
					}
					c.Op.KL = 0
					return true
				},
				func(c *Case) bool {
					if c.Op.SL == 0 {
						return false
					}
					c.Op.SL = 0
					return true
				},
				func(c *Case) bool {
					if c.Op.E == nil || c.Op.E.K == "ok" {
						return false
					}
					c.Op.E = &Entry{K: "ok"}
					return true
				},
			}
			for _, f := range simpl {
				if try(f) {
					progress = true
				}
			}
		}
		for len(cur.Steps) > 1 {
			shr := false
			for i := range cur.Steps {
				i := i
				if try(func(c *Case) bool { c.Steps = append(append([]int{}, c.Steps[:i]...), c.Steps[i+1:]...); return true }) {
					shr, progress = true, true
					break
				}
			}
			if !shr {
				break
			}
		}
		if !progress {
			break
		}
	}
	v := runCase(cur)
	out := *rec
	out.Case = cur
	out.Msg, out.Expected, out.Actual = v.Viol, v.Expected, v.Actual
	b, _ := json.Marshal(map[string]interface{}{"t": "minimised", "ok": true, "rec": out})
	os.Stdout.Write(append(b, '\n'))
	return 0
}
