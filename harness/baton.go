package main

import (
	"runtime/debug"
	"sort"

	"github.com/oasisprotocol/ed25519/zzsimrt"
)

// underBaton runs body as the single top-level client of a baton session. On
// the pinned tree that changes nothing (the client is granted unlimited slices
// and never yields). If the library under test starts goroutines of its own,
// they become further clients and a seeded scheduler decides who runs: the io
// engine and the solo references stay deterministic for such trees too.
func underBaton(seed uint64, body func() int) int {
	zzsimrt.InitBaton(1)
	done := make(chan int, 1) // a real channel: the harness' own hand-over must be visible to the race detector
	go func() {
		debug.SetPanicOnFault(true)
		zzsimrt.ClientStart(0)
		rc := body()
		zzsimrt.Yield(zzsimrt.KTaskDone)
		done <- rc
	}()
	r := NewRng(seed, lbl("io-scheduler"))
	live := map[int]bool{0: true}
	blocked := map[int]bool{}
	last := 0
	streak := 0 // consecutive "blocked" reports
	for len(live) > 0 {
		var cand []int
		for id := range live {
			if !blocked[id] {
				cand = append(cand, id)
			}
		}
		sort.Ints(cand)
		if len(cand) == 0 && streak < 2*len(live)+2 {
			// everybody reported blocked: ask each one again, in turn, before
			// concluding anything (what one client did just before it blocked
			// may be what another one was waiting for)
			var ids []int
			for id := range live {
				ids = append(ids, id)
			}
			sort.Ints(ids)
			next := ids[0]
			for _, id := range ids {
				if id > last {
					next = id
					break
				}
			}
			t0 := zzsimrt.Total()
			who, kind := zzsimrt.Grant(next, 0)
			for _, id := range zzsimrt.TakeSpawned() {
				live[id] = true
			}
			if zzsimrt.Total() != t0 {
				// it did something before it blocked again: progress
				blocked = map[int]bool{}
				streak = 0
			}
			if who != next {
				// the client asked again completed a rendezvous: progress
				blocked = map[int]bool{}
				streak = 0
			}
			last = who
			switch kind {
			case zzsimrt.KBlocked:
				streak++
				blocked[who] = true
			case zzsimrt.KTaskDone:
				delete(live, who)
				if who != 0 {
					zzsimrt.Release(who)
				}
				blocked = map[int]bool{}
				streak = 0
			default:
				blocked = map[int]bool{}
				streak = 0
			}
			continue
		}
		if len(cand) == 0 && zzsimrt.AdvanceClock() {
			streak = 0
			// nobody could run: the simulated clock jumped to its next event
			blocked = map[int]bool{}
			for _, id := range zzsimrt.TakeSpawned() {
				live[id] = true
			}
			continue
		}
		if len(cand) == 0 {
			if !live[0] {
				break // only leaked goroutines of the library remain, all blocked
			}
			// nobody can run: the call in progress will never return
			zzsimrt.SetDeadlocked(true)
			cand = []int{0}
		}
		pick := cand[r.Intn(len(cand))]
		if !blocked[last] && live[last] && r.Chance(3, 4) {
			pick = last // mostly run to the next blocking point
		}
		slice := int64(0)
		if len(live) > 1 {
			slice = int64(r.Range(200, 30000))
		}
		t0 := zzsimrt.Total()
		who, kind := zzsimrt.Grant(pick, slice)
		for _, id := range zzsimrt.TakeSpawned() {
			live[id] = true
		}
		if zzsimrt.Total() != t0 {
			// whatever it reports now, it executed library code first: a
			// client that consumes, computes and blocks again is not "still
			// blocked"
			blocked = map[int]bool{}
			streak = 0
		}
		if who != pick {
			// a rendezvous on an unbuffered channel passed the baton on: progress
			blocked = map[int]bool{}
			streak = 0
			pick = who
		}
		last = pick
		switch kind {
		case zzsimrt.KBlocked:
			blocked[pick] = true
			streak++
		case zzsimrt.KTaskDone:
			streak = 0
			delete(live, pick)
			if pick != 0 {
				zzsimrt.Release(pick)
			}
			blocked = map[int]bool{}
			if pick == 0 {
				zzsimrt.SetDeadlocked(false)
			}
		default:
			streak = 0
			blocked = map[int]bool{}
			zzsimrt.SetDeadlocked(false)
		}
	}
	rc := <-done
	zzsimrt.StopBaton()
	return rc
}
