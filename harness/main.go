package main

import (
	cryptorand "crypto/rand"
	"flag"
	"fmt"
	"os"
	"runtime/debug"
	"time"
)

var tierThorough bool

func main() {
	if len(os.Args) < 2 {
		fmt.Fprintln(os.Stderr, "usage: worker <io|conc|solo|genpool|canary|replay> [flags]")
		os.Exit(2)
	}
	mode := os.Args[1]
	fs := flag.NewFlagSet(mode, flag.ExitOnError)
	var (
		prop     = fs.String("prop", "", "property id")
		config   = fs.String("config", "default", "build configuration name (informational)")
		seed     = fs.Uint64("seed", 1, "VERIF_SEED")
		worker   = fs.Int("worker", 0, "worker index")
		from     = fs.Int("from", 0, "first case index")
		to       = fs.Int("to", -1, "one past the last case index (-1: run until -dur)")
		dur      = fs.Duration("dur", 10*time.Second, "wall-clock budget when -to is -1")
		enum     = fs.Bool("enum", false, "also run this worker's share of the enumeration")
		caseFile = fs.String("case", "", "run exactly the case in this replay file")
		maxViol  = fs.Int("maxviol", 1, "stop after this many violations")
		trace    = fs.Bool("trace", false, "emit one line per case (determinism self-test)")
		thorough = fs.Bool("thorough", false, "thorough-tier generation bounds")
		pool     = fs.String("pool", "", "op pool file")
		refFile  = fs.String("ref", "", "solo reference file")
		index    = fs.Int("index", 0, "pool index (solo)")
		count    = fs.Int("count", 1, "how many pool entries (solo: each still needs its own process unless -count>1 is explicitly asked for)")
		npool    = fs.Int("n", 200, "pool size (genpool)")
		family   = fs.String("family", "", "force one schedule family (conc)")
		firstuse = fs.Int("firstuse", -1, "conc: >= 0 makes the first episode of this process a first-use twin episode (all clients call one kind of function for the first time in the process, simultaneously)")
		grantlog = fs.String("grantlog", "", "conc: append every scheduling decision (client, slice, forced gc) to this file as it is made")
		dumpep   = fs.Bool("dumpep", false, "conc: print episode -from as a self-contained replay episode and exit")
		eidx     = fs.Int("eidx", 0, "enumeration share index")
		en       = fs.Int("en", 1, "enumeration share count")
		minimise = fs.Bool("minimise", false, "with -case: shrink the case while the same check fails, print the result")
	)
	fs.Parse(os.Args[2:])
	tierThorough = *thorough
	cryptorand.Reader = globalDev{}
	debug.SetPanicOnFault(true)
	switch mode {
	case "io":
		a := ioArgs{prop: *prop, config: *config, seed: *seed, worker: *worker, eidx: *eidx, en: *en, minimise: *minimise, from: *from, to: *to,
			dur: *dur, enum: *enum, caseFile: *caseFile, maxViol: *maxViol, trace: *trace}
		os.Exit(underBaton(*seed^uint64(*worker)<<32, func() int { return ioMain(a) }))
	case "genpool":
		os.Exit(genPoolMain(*seed, *npool))
	case "solo":
		os.Exit(underBaton(*seed, func() int { return soloMain(*pool, *index, *count) }))
	case "conc":
		os.Exit(concMain(concArgs{config: *config, seed: *seed, worker: *worker, pool: *pool, ref: *refFile, from: *from, to: *to,
			dur: *dur, caseFile: *caseFile, trace: *trace, family: *family, dumpep: *dumpep, firstuse: *firstuse, eidx: *eidx, en: *en, grantlog: *grantlog}))
	case "canary":
		os.Exit(canaryMain(*prop == "locked"))
	default:
		fmt.Fprintln(os.Stderr, "unknown mode", mode)
		os.Exit(2)
	}
}
