package main

import (
	"crypto/sha256"
	"encoding/hex"
	"encoding/json"
	"fmt"
	"github.com/oasisprotocol/ed25519/zzsimrt"
	"os"
	"sync"
	"syscall"
	"unsafe"
)

// ---------------------------------------------------------------- PRNG

// Rng is SplitMix64. Every choice of the simulator is drawn from an Rng that
// is derived from VERIF_SEED; nothing else (clock, map order, scheduler) ever
// decides anything.
type Rng struct{ s uint64 }

func mix64(z uint64) uint64 {
	z += 0x9e3779b97f4a7c15
	z = (z ^ (z >> 30)) * 0xbf58476d1ce4e5b9
	z = (z ^ (z >> 27)) * 0x94d049bb133111eb
	return z ^ (z >> 31)
}

// derive builds an independent stream id from a seed and labels.
func derive(seed uint64, labels ...uint64) uint64 {
	h := mix64(seed ^ 0x6a09e667f3bcc908)
	for _, l := range labels {
		h = mix64(h ^ mix64(l+0x3c6ef372fe94f82b))
	}
	return h
}

func lbl(s string) uint64 {
	var h uint64 = 1469598103934665603
	for i := 0; i < len(s); i++ {
		h = (h ^ uint64(s[i])) * 1099511628211
	}
	return h
}

func NewRng(seed uint64, labels ...uint64) *Rng { return &Rng{derive(seed, labels...)} }

func (r *Rng) U64() uint64 {
	r.s += 0x9e3779b97f4a7c15
	z := r.s
	z = (z ^ (z >> 30)) * 0xbf58476d1ce4e5b9
	z = (z ^ (z >> 27)) * 0x94d049bb133111eb
	return z ^ (z >> 31)
}

func (r *Rng) Intn(n int) int {
	if n <= 0 {
		return 0
	}
	return int(r.U64() % uint64(n))
}

// Range returns a value in [lo, hi].
func (r *Rng) Range(lo, hi int) int { return lo + r.Intn(hi-lo+1) }

func (r *Rng) Chance(num, den int) bool { return r.Intn(den) < num }

func (r *Rng) Bytes(n int) []byte {
	b := make([]byte, n)
	for i := 0; i < n; i += 8 {
		v := r.U64()
		for j := 0; j < 8 && i+j < n; j++ {
			b[i+j] = byte(v >> (8 * uint(j)))
		}
	}
	return b
}

func (r *Rng) Pick(weights ...int) int {
	t := 0
	for _, w := range weights {
		t += w
	}
	x := r.Intn(t)
	for i, w := range weights {
		if x < w {
			return i
		}
		x -= w
	}
	return len(weights) - 1
}

func seededBytes(n int, seed uint64, labels ...uint64) []byte {
	return NewRng(seed, labels...).Bytes(n)
}

// ---------------------------------------------------------------- output

var outMu sync.Mutex

// emit writes one JSON line to stdout (the orchestrator's protocol).
func emit(v interface{}) {
	b, err := json.Marshal(v)
	if err != nil {
		fmt.Fprintln(os.Stderr, "emit:", err)
		os.Exit(2)
	}
	outMu.Lock()
	os.Stdout.Write(append(b, '\n'))
	outMu.Unlock()
}

func infra(format string, a ...interface{}) {
	fmt.Fprintf(os.Stderr, "INFRA: "+format+"\n", a...)
	os.Exit(2)
}

func hx(b []byte) string { return hex.EncodeToString(b) }

func shortHash(b []byte) string {
	h := sha256.Sum256(b)
	return hex.EncodeToString(h[:8])
}

// ---------------------------------------------------------------- guarded buffers

// Guard owns every byte array handed to the library. The arrays are carved
// out of anonymous mmap'ed pages that are made READ-ONLY before the call: any
// write to caller-supplied memory - including a transient one that is undone
// before the call returns, and one into the spare capacity behind a slice -
// faults, and the fault is turned into a recoverable panic
// (debug.SetPanicOnFault). As a second line the arrays are canary-filled and
// hashed before and after each call.
type Guard struct {
	chunks [][]byte
	cur    []byte
	off    int
	arrs   [][]byte
	sum    [32]byte
	ro     bool
	tight  bool // slices come without spare capacity
}

const guardPad = 16
const guardSpare = 80 // spare capacity behind every slice: room for an in-place append of a key or signature

// chunkPool recycles released chunks (LIFO, per size): a caller that decodes
// successive inputs into the same buffers hands the library the SAME addresses
// with DIFFERENT contents from one call to the next. A library that keeps a
// caller's slice beyond the call (as a cache key, say) then compares the
// buffer with itself. One release in four really unmaps instead, so that a
// retained pointer is also caught reading memory that is gone.
var chunkPool = map[int][][]byte{}
var chunkReleases uint64

func (g *Guard) alloc(n int) []byte {
	n = (n + 7) &^ 7
	if g.cur == nil || g.off+n > len(g.cur) {
		size := 4096
		for size < n {
			size *= 2
		}
		var m []byte
		if l := chunkPool[size]; len(l) > 0 && !noChunkReuse {
			m = l[len(l)-1]
			chunkPool[size] = l[:len(l)-1]
		} else {
			var err error
			m, err = syscall.Mmap(-1, 0, size, syscall.PROT_READ|syscall.PROT_WRITE, syscall.MAP_ANON|syscall.MAP_PRIVATE)
			if err != nil {
				infra("mmap: %v", err)
			}
		}
		g.chunks = append(g.chunks, m)
		g.cur, g.off = m, 0
	}
	b := g.cur[g.off : g.off+n : g.off+n]
	g.off += n
	return b
}

// Buf returns a copy of b inside guarded memory, surrounded by canaries and
// with spare capacity behind it. nil stays nil.
func (g *Guard) Buf(b []byte) []byte {
	if b == nil {
		return nil
	}
	if g.ro {
		g.unprotect()
	}
	arr := g.alloc(guardPad + len(b) + guardSpare)
	for i := range arr {
		arr[i] = 0xA5 ^ byte(i*7)
	}
	copy(arr[guardPad:], b)
	g.arrs = append(g.arrs, arr)
	if g.tight {
		return arr[guardPad : guardPad+len(b) : guardPad+len(b)]
	}
	return arr[guardPad : guardPad+len(b) : guardPad+len(b)+guardSpare]
}

// Raw returns n bytes of guarded memory for the caller to lay out itself
// (overlapping views).
func (g *Guard) Raw(n int) []byte {
	if g.ro {
		g.unprotect()
	}
	arr := g.alloc(n)
	g.arrs = append(g.arrs, arr)
	return arr
}

func (g *Guard) hash() [32]byte {
	h := sha256.New()
	for _, a := range g.arrs {
		h.Write(a)
	}
	var s [32]byte
	h.Sum(s[:0])
	return s
}

func (g *Guard) unprotect() {
	for _, c := range g.chunks {
		syscall.Mprotect(c, syscall.PROT_READ|syscall.PROT_WRITE)
	}
	g.ro = false
}

// Seal records the content and makes all guarded memory read-only.
func (g *Guard) Seal() {
	g.sum = g.hash()
	for _, c := range g.chunks {
		if err := syscall.Mprotect(c, syscall.PROT_READ); err != nil {
			infra("mprotect: %v", err)
		}
	}
	g.ro = true
}

func (g *Guard) Intact() bool { return g.hash() == g.sum }

// Contains reports whether addr lies inside guarded memory.
func (g *Guard) Contains(addr uintptr) bool {
	for _, c := range g.chunks {
		base := uintptr(unsafe.Pointer(&c[0]))
		if addr >= base && addr < base+uintptr(len(c)) {
			return true
		}
	}
	return false
}

// Release unmaps the guarded memory. The Prepared it belongs to must not be
// used afterwards.
func (g *Guard) Release() {
	if zzsimrt.LiveChildren() > 0 {
		// goroutines the library started are still alive and may still read
		// what their call was given (a real caller's slices would not vanish
		// under them either): the pages stay, read-only, for good
		g.chunks, g.cur, g.arrs = nil, nil, nil
		return
	}
	for _, c := range g.chunks {
		chunkReleases++
		if noChunkReuse || chunkReleases%4 == 0 || len(chunkPool[len(c)]) >= 64 {
			syscall.Munmap(c)
			continue
		}
		syscall.Mprotect(c, syscall.PROT_READ|syscall.PROT_WRITE)
		chunkPool[len(c)] = append(chunkPool[len(c)], c)
	}
	g.chunks, g.cur, g.arrs = nil, nil, nil
}

// noChunkReuse: the concurrency engine shares one Prepared between clients and
// keeps several alive at once; recycling is for the sequential engines.
var noChunkReuse bool
