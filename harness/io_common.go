package main

import (
	"encoding/json"
	"fmt"
	"os"
	"sort"
	"time"

	"github.com/oasisprotocol/ed25519/zzsimrt"
)

// A Case is one self-contained simulated execution of the io engine: an
// operation (or an accessor script) plus the name of the check that judges it.
type Case struct {
	Prop  string `json:"prop"`
	Check string `json:"check"`
	Op    *Op    `json:"op,omitempty"`
	Steps []int  `json:"steps,omitempty"`
	Seed  uint64 `json:"seed,omitempty,string"`
}

// Verdict of one case.
type Verdict struct {
	Viol     string // "" = held
	CheckID  string // which clause failed
	Expected string
	Actual   string
	Sig      string          // coverage signature of the case
	Nontriv  bool            // exercised the property's mechanism
	Fired    map[string]int  // fault kinds that actually fired
	Probes   map[string]bool // rare-condition probes hit
	Pts      int64
	Calls    int
}

func (v *Verdict) fire(k string) {
	if v.Fired == nil {
		v.Fired = map[string]int{}
	}
	v.Fired[k]++
}
func (v *Verdict) probe(k string) {
	if v.Probes == nil {
		v.Probes = map[string]bool{}
	}
	v.Probes[k] = true
}

var processPolluted bool

func (v *Verdict) fail(check, exp, act, format string, a ...interface{}) {
	if v.Viol != "" {
		return
	}
	if lastOpInconclusive || processPolluted {
		// (after such a run the process still holds the goroutines involved -
		// one dead, its siblings alive, the caller's wait abandoned: nothing
		// later in this process is judged either)
		processPolluted = true
		v.probe("inconclusive-library-goroutine-ran-past-its-step-budget")
		return
	}
	v.Viol = fmt.Sprintf(format, a...)
	v.CheckID, v.Expected, v.Actual = check, exp, act
}

// noteDev records which device faults actually fired during a call.
func (v *Verdict) noteDev(d *DevLog, plan *DevPlan) {
	if d == nil {
		return
	}
	if d.Stalls > 0 {
		v.fire("stall")
	}
	if d.DelayedMs > 0 {
		v.fire("slow_read_simulated_time")
	}
	if d.Shorts > 0 {
		v.fire("short_read")
	}
	if d.ErrKind != 0 {
		v.fire(errKindNames[d.ErrKind])
		if d.Recovered {
			v.fire("device_recovered_after_error")
		}
		if d.ErrWith {
			v.fire("err_with_data")
		} else {
			v.fire("err_separate")
		}
	}
	if plan != nil && plan.Content != CUniform && d.Delivered > 0 {
		v.fire("content_" + contentNames[plan.Content])
	}
}

// IOStats aggregates one worker's run.
type IOStats struct {
	T         string          `json:"t"`
	Prop      string          `json:"prop"`
	Config    string          `json:"config"`
	Worker    int             `json:"worker"`
	Seed      uint64          `json:"seed"`
	Cases     int             `json:"cases"`
	Enum      int             `json:"enum"`
	EnumTotal int             `json:"enum_total"`
	EnumDone  bool            `json:"enum_done"`
	Nontriv   int             `json:"nontrivial"`
	Sigs      []string        `json:"sigs"`
	NtSigs    []string        `json:"nt_sigs"`
	Fired     map[string]int  `json:"fired"`
	Probes    map[string]int  `json:"probes"`
	Points    int64           `json:"points"`
	LibCalls  int             `json:"lib_calls"`
	Samples   []Case          `json:"samples"`
	Notes     map[string]int  `json:"notes"`
	Viol      int             `json:"violations"`
	WallS     float64         `json:"wall_s"`
	SimNs     int64           `json:"sim_ns"`
	SimJumps  int64           `json:"sim_jumps"`
	FirstIdx  int             `json:"first_idx"`
	LastIdx   int             `json:"last_idx"`
	sigSet    map[string]bool `json:"-"`
	ntSet     map[string]bool `json:"-"`
}

func newIOStats(prop, cfg string, worker int, seed uint64) *IOStats {
	return &IOStats{T: "stats", Prop: prop, Config: cfg, Worker: worker, Seed: seed,
		Fired: map[string]int{}, Probes: map[string]int{}, Notes: map[string]int{},
		sigSet: map[string]bool{}, ntSet: map[string]bool{}}
}

func (s *IOStats) add(c *Case, v *Verdict) {
	s.Cases++
	s.Points += v.Pts
	s.LibCalls += v.Calls
	if v.Sig != "" {
		s.sigSet[v.Sig] = true
		if v.Nontriv {
			s.ntSet[v.Sig] = true
		}
	}
	if v.Nontriv {
		s.Nontriv++
	}
	for k, n := range v.Fired {
		s.Fired[k] += n
	}
	for k := range v.Probes {
		s.Probes[k]++
	}
	if len(s.Samples) < 3 && v.Nontriv && (s.Cases%7 == 1 || len(s.Samples) == 0) {
		s.Samples = append(s.Samples, *c)
	}
}

func (s *IOStats) finish(start time.Time) {
	s.WallS = time.Since(start).Seconds()
	s.SimNs, s.SimJumps = zzsimrt.SimAdvanced()
	for k := range s.sigSet {
		s.Sigs = append(s.Sigs, k)
	}
	for k := range s.ntSet {
		s.NtSigs = append(s.NtSigs, k)
	}
	sort.Strings(s.Sigs)
	sort.Strings(s.NtSigs)
}

// ViolationRec is what a worker reports and what a replay file contains.
type ViolationRec struct {
	T        string `json:"t"`
	Prop     string `json:"prop"`
	CheckID  string `json:"check_id"`
	Msg      string `json:"msg"`
	Expected string `json:"expected,omitempty"`
	Actual   string `json:"actual,omitempty"`
	Engine   string `json:"engine"`
	Config   string `json:"config"`
	Seed     uint64 `json:"seed"`
	Worker   int    `json:"worker"`
	Index    int    `json:"index"`
	// History > 0: the case only fails after the History preceding cases of
	// the same worker stream ran in the same process.
	History int   `json:"history,omitempty"`
	Case    *Case `json:"case,omitempty"`
}

// genCase produces case number idx of a worker's stream for a property. It is
// a pure function of (seed, worker, idx).
func genCase(prop string, seed uint64, worker, idx int) *Case {
	c := genCase0(prop, seed, worker, idx)
	// Sticky options: now and then a case takes over the options of the case
	// before it EXACTLY (variant, context bytes, rule set): a caller issuing
	// call after call with one Options value. What an implementation remembers
	// about "the options of the last call" is only wrong when they recur.
	if idx > 0 && c != nil && c.Op != nil && (prop == "C13" || prop == "C06" || prop == "C02") && !c.Op.Follow {
		rs := NewRng(seed, lbl(prop), lbl("sticky"), uint64(worker), uint64(idx))
		if rs.Chance(1, 8) {
			if prev := genCase0(prop, seed, worker, idx-1); prev != nil && prev.Op != nil && prev.Op.Opt.Form == 0 && c.Op.Opt.Form == 0 {
				o := prev.Op.Opt
				if o.CS == 0 {
					o.CS = prev.Op.Seed
				}
				c.Op.Opt = o
			}
		}
	}
	return c
}

func genCase0(prop string, seed uint64, worker, idx int) *Case {
	r := NewRng(seed, lbl(prop), uint64(worker), uint64(idx))
	switch prop {
	case "C14":
		return genC14(r)
	case "C06", "C17":
		if prop == "C06" {
			if c := zipPairCase(seed, worker, idx); c != nil {
				return c
			}
		}
		return genBatchCase(prop, r)
	case "C13":
		return genC13(r)
	case "C02":
		return genC02(r)
	}
	infra("no io generator for property %s", prop)
	return nil
}

func enumCases(prop string) []*Case {
	switch prop {
	case "C14":
		return enumC14()
	case "C06":
		return append(append(append(enumBatchFaults(prop), enumBadSubsets()...), enumBorderRepeats(prop)...), enumUniformForgeries()...)
	case "C13":
		return append(append(enumBatchFaults(prop), enumShapes()...), enumBorderRepeats(prop)...)
	case "C02":
		return enumSignLengths()
	}
	return nil
}

func runCase(c *Case) (v *Verdict) {
	v = &Verdict{}
	if lastOpInconclusive {
		processPolluted = true
	}
	lastOpInconclusive = false
	defer func() {
		// The oracles index into what the library returned. If that blows up
		// (a result of impossible shape), it is the library's result that is
		// wrong, not the harness that is in trouble: on the unchanged tree no
		// oracle ever panics.
		if r := recover(); r != nil {
			if _, ok := r.(zzsimrt.BudgetExceeded); ok {
				panic(r)
			}
			v.fail("malformed-result", "a result the oracle can examine", fmt.Sprint(r),
				"the library returned something of a shape no correct implementation returns; the oracle could not examine it: %v", r)
		}
	}()
	switch c.Check {
	case "genkey":
		checkGenKey(c, v)
	case "accessors":
		checkAccessors(c, v)
	case "batch":
		checkBatch(c, v)
	case "shape":
		checkShape(c, v)
	case "sign":
		checkSign(c, v)
	default:
		infra("unknown check %q", c.Check)
	}
	return v
}

type ioArgs struct {
	prop, config string
	seed         uint64
	worker       int
	eidx, en     int
	minimise     bool
	from, to     int // case index range [from,to); to<0: until deadline
	dur          time.Duration
	enum         bool
	caseFile     string
	maxViol      int
	trace        bool
}

// ioMain is the worker loop of the io engine.
func ioMain(a ioArgs) int {
	installHooks()
	reuseOptions = true
	stabilityRing = make([]*Outcome, 6)
	start := time.Now()
	st := newIOStats(a.prop, a.config, a.worker, a.seed)
	viols := 0
	report := func(c *Case, v *Verdict, idx int) {
		viols++
		emit(ViolationRec{T: "violation", Prop: c.Prop, CheckID: v.CheckID, Msg: v.Viol, Expected: v.Expected, Actual: v.Actual,
			Engine: "io", Config: a.config, Seed: a.seed, Worker: a.worker, Index: idx, Case: c})
	}
	if a.caseFile != "" {
		var rec ViolationRec
		b, err := os.ReadFile(a.caseFile)
		if err != nil {
			infra("read case: %v", err)
		}
		if err := json.Unmarshal(b, &rec); err != nil || rec.Case == nil {
			infra("parse case file: %v", err)
		}
		if a.minimise {
			return minimiseMain(&rec)
		}
		v := runCase(rec.Case)
		st.add(rec.Case, v)
		if v.Viol != "" {
			report(rec.Case, v, rec.Index)
		}
		st.Viol = viols
		st.finish(start)
		emit(st)
		if viols > 0 {
			return 1
		}
		return 0
	}
	if a.enum {
		all := enumCases(a.prop)
		st.EnumTotal = len(all)
		st.EnumDone = true
		for i, c := range all {
			if i%a.en != a.eidx {
				continue
			}
			v := runCase(c)
			st.add(c, v)
			st.Enum++
			if a.trace {
				emit(map[string]interface{}{"t": "trace", "enum": i, "sig": v.Sig, "viol": v.Viol, "pts": v.Pts})
			}
			if v.Viol != "" {
				report(c, v, -1-i)
				if viols >= a.maxViol {
					st.EnumDone = false
					break
				}
			}
		}
	}
	deadline := time.Now().Add(a.dur)
	st.FirstIdx = a.from
	idx := a.from
	for viols < a.maxViol {
		if a.to >= 0 && idx >= a.to {
			break
		}
		if a.to < 0 && !time.Now().Before(deadline) {
			break
		}
		c := genCase(a.prop, a.seed, a.worker, idx)
		v := runCase(c)
		st.add(c, v)
		if a.trace {
			emit(map[string]interface{}{"t": "trace", "idx": idx, "sig": v.Sig, "viol": v.Viol, "pts": v.Pts, "total": zzsimrt.Total()})
		}
		if v.Viol != "" {
			report(c, v, idx)
		}
		idx++
	}
	st.LastIdx = idx
	st.Viol = viols
	st.finish(start)
	emit(st)
	if viols > 0 {
		return 1
	}
	return 0
}
