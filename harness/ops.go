package main

import (
	"bytes"
	"crypto"
	stded "crypto/ed25519"
	"crypto/sha512"
	"encoding/hex"
	"fmt"
	"io"
	"math/big"
	"runtime"
	"unsafe"

	"github.com/oasisprotocol/ed25519"
	"github.com/oasisprotocol/ed25519/extra/x25519"
	"github.com/oasisprotocol/ed25519/zzsimrt"
)

// ---------------------------------------------------------------- descriptors

// Opt selects the variant. Hash: 0 = crypto.Hash(0), 1 = crypto.SHA512,
// 2 = crypto.SHA256, 3 = crypto.SHA384, 4 = crypto.Hash(77).
// Form (PrivateKey.Sign only): 0 = *Options, 1 = the bare crypto.Hash value.
type Opt struct {
	Hash int  `json:"h,omitempty"`
	Ctx  int  `json:"c,omitempty"`
	CK   int  `json:"ck,omitempty"` // context flavour: 0 random bytes, 1 two-byte UTF-8 runes, 2 three-byte runes, 3 ASCII
	Zip  bool `json:"z,omitempty"`
	Form int  `json:"f,omitempty"`
	// CS != 0: the context bytes are derived from this seed instead of the
	// op's own (an op that takes over the previous op's options exactly)
	CS uint64 `json:"cs,omitempty,string"`
}

func (o Opt) hash() crypto.Hash {
	switch o.Hash {
	case 1:
		return crypto.SHA512
	case 2:
		return crypto.SHA256
	case 3:
		return crypto.SHA384
	case 4:
		return crypto.Hash(77)
	}
	return crypto.Hash(0)
}

func (o Opt) String() string {
	return fmt.Sprintf("h%d/c%d/z%v/f%d", o.Hash, o.Ctx, o.Zip, o.Form)
}

// Entry describes one (key, message, signature) triple: an honest signature
// with one kind of damage applied.
type Entry struct {
	K   string `json:"k"`
	Key int    `json:"key,omitempty"` // which signer of the op
	ML  int    `json:"ml,omitempty"`  // message length
	P   int    `json:"p,omitempty"`
	Q   int    `json:"q,omitempty"`
	X   string `json:"x,omitempty"`  // torS: the scalar half, hex, little endian
	K2  string `json:"k2,omitempty"` // a second, independent damage applied on top (tK nK tS lS nS sL fS msg)
}

// Op is one library call with completely determined inputs.
type Op struct {
	Fn      string   `json:"fn"`
	Seed    uint64   `json:"seed,string"`
	Opt     Opt      `json:"opt,omitempty"`
	Rd      *DevPlan `json:"rd,omitempty"`
	NilRd   bool     `json:"nilrd,omitempty"`
	ML      int      `json:"ml,omitempty"`
	E       *Entry   `json:"e,omitempty"`
	Entries []Entry  `json:"entries,omitempty"`
	Skew    []int    `json:"skew,omitempty"` // VerifyBatch: drop this many trailing keys/msgs/sigs
	KL      int      `json:"kl,omitempty"`   // key/seed length override: 0 proper, -1 nil, else len+1
	SL      int      `json:"sl,omitempty"`   // signature length override (same coding)
	Pt      int      `json:"pt,omitempty"`   // X25519 point kind
	Alias   int      `json:"alias,omitempty"`
	Other   int      `json:"other,omitempty"`  // Equal: what to compare with; Sign: 1 = foreign seed half
	Sib     int      `json:"sib,omitempty"`    // pool: 1 + index of the op this one is a sibling of
	Follow  bool     `json:"follow,omitempty"` // VerifyBatch: take over variant and context LENGTH of the previous batch call of this process, with a different context; "pctx" entries are signed under the previous call's context
}

func shapeLen(code, def int) int {
	switch {
	case code == 0:
		return def
	case code < 0:
		return -1
	}
	return code - 1
}

func resize(b []byte, n int, seed uint64) []byte {
	if n < 0 {
		return nil
	}
	if n <= len(b) {
		return append([]byte{}, b[:n]...)
	}
	out := append([]byte{}, b...)
	return append(out, seededBytes(n-len(b), seed, lbl("pad"))...)
}

// ---------------------------------------------------------------- entries

func (o Opt) ctxBytes(seed uint64) []byte {
	if o.Ctx <= 0 {
		return nil
	}
	if o.CS != 0 {
		seed = o.CS
	}
	b := seededBytes(o.Ctx, seed, lbl("ctx"))
	for i := range b { // keep it printable-agnostic but never empty-looking
		if b[i] == 0 {
			b[i] = 1
		}
	}
	// valid multi-byte UTF-8 of exactly Ctx BYTES (a limit counted in
	// characters instead of bytes only shows on such contexts)
	switch o.CK {
	case 1, 2:
		unit := []string{"", "\u00e9", "\u20ac"}[o.CK]
		out := make([]byte, 0, o.Ctx)
		for len(out)+len(unit) <= o.Ctx {
			out = append(out, unit...)
		}
		for len(out) < o.Ctx {
			out = append(out, 'x')
		}
		return out
	case 3:
		for i := range b {
			b[i] = 'a' + b[i]%26
		}
	}
	return b
}

func (o Opt) signable() bool { return (o.Hash == 0 || o.Hash == 1) && o.Ctx <= 255 }

func signerSeed(opSeed uint64, key int) []byte {
	return seededBytes(32, opSeed, lbl("signer"), uint64(key))
}

// stdSign produces an honest signature with the toolchain's crypto/ed25519
// (independent of the library under test).
func stdSign(seed, msg []byte, o Opt, ctx []byte) []byte {
	priv := stded.NewKeyFromSeed(seed)
	if !o.signable() {
		return stded.Sign(priv, msg)
	}
	sig, err := priv.Sign(nil, msg, &stded.Options{Hash: o.hash(), Context: string(ctx)})
	if err != nil {
		return stded.Sign(priv, msg)
	}
	return sig
}

type triple struct{ key, msg, sig []byte }

func flipBit(b []byte, bit int) {
	if len(b) == 0 {
		return
	}
	bit %= len(b) * 8
	b[bit/8] ^= 1 << uint(bit%8)
}

func undecodable(seed uint64) []byte {
	r := NewRng(seed, lbl("undec"))
	for {
		b := r.Bytes(32)
		if _, ok := bcDecode(b); !ok {
			return b
		}
	}
}

// buildEntries materialises the entries of an op. Pure function of
// (op seed, option set, entry list).
// Set by prepare around buildEntries for ops that follow the previous batch
// call (sequential engines only).
var followCtx, followPrevCtx []byte

func buildEntries(opSeed uint64, o Opt, es []Entry) []triple {
	ctx := o.ctxBytes(opSeed)
	if followCtx != nil {
		ctx = followCtx
	}
	signCtx := ctx
	if len(signCtx) > 255 {
		signCtx = signCtx[:255]
	}
	out := make([]triple, len(es))
	for i, e := range es {
		seed := signerSeed(opSeed, e.Key)
		pub := []byte(stded.NewKeyFromSeed(seed).Public().(stded.PublicKey))
		ml := e.ML
		if o.Hash == 1 {
			ml = 64
		}
		msg := seededBytes(ml, opSeed, lbl("msg"), uint64(i))
		if e.K == "dup" && i > 0 {
			j := e.P % i
			out[i] = triple{append([]byte{}, out[j].key...), append([]byte{}, out[j].msg...), append([]byte{}, out[j].sig...)}
			continue
		}
		sig := stdSign(seed, msg, o, signCtx)
		t := triple{append([]byte{}, pub...), msg, sig}
		switch e.K {
		case "ok", "dup":
		case "msg":
			if len(t.msg) == 0 {
				t.msg = []byte{byte(e.P)}
			} else {
				flipBit(t.msg, e.P)
			}
		case "fR":
			flipBit(t.sig[:32], e.P)
		case "fS":
			flipBit(t.sig[32:], e.P)
		case "fA":
			flipBit(t.key, e.P)
		case "sL":
			s := new(big.Int).Add(leToInt(t.sig[32:]), bcL)
			copy(t.sig[32:], intToLE32(s))
		case "zS":
			for j := 32; j < 64; j++ {
				t.sig[j] = 0
			}
		case "smA":
			t.key = append([]byte{}, smallOrderEnc[e.P%14]...)
		case "smR":
			copy(t.sig[:32], smallOrderEnc[e.P%14])
		case "udA":
			t.key = undecodable(derive(opSeed, uint64(i)))
		case "udR":
			copy(t.sig[:32], undecodable(derive(opSeed, uint64(i), 1)))
		case "ncA":
			t.key = append([]byte{}, nonCanonEnc[e.P%len(nonCanonEnc)]...)
		case "ncR":
			copy(t.sig[:32], nonCanonEnc[e.P%len(nonCanonEnc)])
		case "tS":
			t.sig = resize(t.sig, e.P%64, opSeed)
		case "lS":
			t.sig = resize(t.sig, 65+e.P%40, opSeed)
		case "nS":
			t.sig = nil
		case "tK":
			n := e.P % 70
			if n == 32 {
				n = 31
			}
			t.key = resize(t.key, n, opSeed)
		case "nK":
			t.key = nil
		case "bPh":
			n := e.P % 130
			if n == 64 {
				n = 63
			}
			t.msg = resize(t.msg, n, opSeed)
		case "cA", "cB":
			// cancelling pair: S1+delta, S2-delta. Each entry is invalid on
			// its own; the batch equation holds iff both randomisers agree.
			delta := new(big.Int).Mod(leToInt(seededBytes(32, opSeed, lbl("delta"), uint64(e.Q))), bcL)
			if delta.Sign() == 0 {
				delta.SetInt64(1)
			}
			s := leToInt(t.sig[32:])
			if e.K == "cA" {
				s.Add(s, delta)
			} else {
				s.Sub(s, delta)
			}
			s.Mod(s, bcL)
			copy(t.sig[32:], intToLE32(s))
		case "tor":
			// ZIP-215-valid signature under a small-order key: R = [S]B + T.
			t.key = append([]byte{}, smallOrderEnc[e.P%14]...)
			s := new(big.Int).Mod(leToInt(seededBytes(32, opSeed, lbl("torS"), uint64(i))), bcL)
			if e.Q&1 == 1 { // scalar in the top slice [2^252, L)
				top := new(big.Int).Lsh(big.NewInt(1), 252)
				span := new(big.Int).Sub(bcL, top)
				s.Mod(s, span)
				s.Add(s, top)
			}
			R := bcAdd(bcScalarMult(s, bcB), bcTorsion[(e.Q>>1)%8])
			t.sig = append(bcEncode(R), intToLE32(s)...)
		case "torS":
			// as "tor", with a prescribed scalar (boundary values of the scalar arithmetic)
			t.key = append([]byte{}, smallOrderEnc[e.P%14]...)
			sb, _ := hex.DecodeString(e.X)
			s := new(big.Int).Mod(leToInt(resize(sb, 32, 0)), bcL)
			R := bcAdd(bcScalarMult(s, bcB), bcTorsion[e.Q%8])
			t.sig = append(bcEncode(R), intToLE32(s)...)
		case "tor0":
			// small-order key, small-order R, S = 0: valid under ZIP-215 only
			t.key = append([]byte{}, smallOrderEnc[e.P%14]...)
			t.sig = append(append([]byte{}, smallOrderEnc[e.Q%14]...), make([]byte, 32)...)
		case "smRv":
			// honest key, small-order R, S = h*a: [8]([S]B - [h]A - R) = -[8]R = 0,
			// valid under ZIP-215, rejected by default (small-order R)
			R := smallOrderEnc[e.P%14]
			a, _ := bcSecret(seed)
			hh := sha512.New()
			hh.Write(dom2(o.Hash, signCtxFor(o, signCtx)))
			hh.Write(R)
			hh.Write(pub)
			hh.Write(t.msg)
			k := new(big.Int).Mod(leToInt(hh.Sum(nil)), bcL)
			s := new(big.Int).Mod(new(big.Int).Mul(k, a), bcL)
			t.sig = append(append([]byte{}, R...), intToLE32(s)...)
		case "noR":
			// honest key, S = h*a, R an unrelated large-order point: the group
			// equation holds only for a verifier that drops the R term
			R := bcEncode(bcScalarMult(new(big.Int).Add(leToInt(seededBytes(31, opSeed, lbl("noR"), uint64(i))), big.NewInt(2)), bcB))
			a, _ := bcSecret(seed)
			hh := sha512.New()
			hh.Write(dom2(o.Hash, signCtxFor(o, signCtx)))
			hh.Write(R)
			hh.Write(pub)
			hh.Write(t.msg)
			k := new(big.Int).Mod(leToInt(hh.Sum(nil)), bcL)
			t.sig = append(append([]byte{}, R...), intToLE32(new(big.Int).Mod(new(big.Int).Mul(k, a), bcL))...)
		case "pctx":
			// signed under the context the PREVIOUS batch call of this process
			// used (same length as the current one, different bytes): valid
			// only for a verifier whose idea of the context is stale
			if followPrevCtx != nil {
				t.sig = stdSign(seed, t.msg, o, followPrevCtx)
			} else {
				flipBit(t.sig[32:], 3)
			}
		case "pfx":
			// an honest signature over a proper PREFIX of the message
			k := []int{32, 64, 96, 128, 160, 192, 224, 256, 1, 111}[e.P%10]
			t.msg = seededBytes(k+1+e.Q%40, opSeed, lbl("msg"), uint64(i))
			if o.Hash != 1 {
				t.sig = stdSign(seed, t.msg[:k], o, signCtx)
			}
		case "noRB":
			// key = the base point itself, S = h, R an unrelated point:
			// [S]B - [h]A = 0 with EQUAL scalars on both sides - a verifier
			// whose reduction ends before the R terms join accepts it
			t.key = bcEncode(bcB)
			R := bcEncode(bcScalarMult(new(big.Int).Add(leToInt(seededBytes(31, opSeed, lbl("noRB"), uint64(i))), big.NewInt(2)), bcB))
			hh := sha512.New()
			hh.Write(dom2(o.Hash, signCtxFor(o, signCtx)))
			hh.Write(R)
			hh.Write(t.key)
			hh.Write(t.msg)
			k := new(big.Int).Mod(leToInt(hh.Sum(nil)), bcL)
			t.sig = append(append([]byte{}, R...), intToLE32(k)...)
		case "torR":
			// small-order key, S = 0, R an unrelated large-order point
			t.key = append([]byte{}, smallOrderEnc[e.P%14]...)
			R := bcEncode(bcScalarMult(new(big.Int).Add(leToInt(seededBytes(31, opSeed, lbl("torR"), uint64(i))), big.NewInt(2)), bcB))
			t.sig = append(append([]byte{}, R...), make([]byte, 32)...)
		case "noA":
			// R = [S]B with an unrelated key: holds only for a verifier that drops the A term
			sN := new(big.Int).Mod(leToInt(seededBytes(32, opSeed, lbl("noA"), uint64(i))), bcL)
			t.sig = append(bcEncode(bcScalarMult(sN, bcB)), intToLE32(sN)...)
		case "lK":
			// an over-long key (the honest key plus trailing bytes) with a
			// signature made over exactly those over-long bytes: only the key
			// length rule rejects it
			t.key = append(append([]byte{}, pub...), seededBytes(1+e.P%40, opSeed, lbl("lK"), uint64(i))...)
			t.sig = bcSignAs(seed, t.key, t.msg, dom2(o.Hash, signCtxFor(o, signCtx)))
		case "phLen":
			// a signature that is a correct Ed25519ph signature over a
			// "pre-hash" of the wrong length: only the length rule rejects it
			n := e.P % 130
			if n == 64 {
				n = 65
			}
			t.msg = seededBytes(n, opSeed, lbl("msg"), uint64(i))
			t.sig = bcSignAs(seed, pub, t.msg, dom2(1, signCtxFor(o, signCtx)))
		case "xdom":
			// an honest signature of this key over this message made in
			// ANOTHER signing domain (plain where the batch is ctx/ph, the
			// other flag, the empty context, a neighbouring context, ...):
			// rejected by nothing but the dom2 prefix inside the hash
			cur := dom2(o.Hash, signCtxFor(o, signCtx))
			raw := func(flag byte, c []byte) []byte {
				return append(append([]byte("SigEd25519 no Ed25519 collisions"), flag, byte(len(c))), c...)
			}
			curFlag := byte(0)
			if o.Hash == 1 {
				curFlag = 1
			}
			sc := signCtxFor(o, signCtx)
			nb := append([]byte{}, sc...)
			if len(nb) > 0 {
				nb[(e.Q>>1)%len(nb)] ^= 1 << uint(e.Q%8)
			} else {
				nb = []byte{byte(e.Q)}
			}
			shorter := sc
			if len(shorter) > 0 {
				shorter = shorter[:len(shorter)-1]
			}
			cands := [][]byte{nil, raw(1-curFlag, nil), raw(1-curFlag, sc), raw(curFlag, nb), raw(curFlag, nil), raw(curFlag, shorter), nil, raw(0, nil)}
			for k := 0; k < len(cands); k++ {
				d := cands[(e.P+k)%len(cands)]
				if !bytes.Equal(d, cur) {
					t.sig = bcSignAs(seed, pub, t.msg, d)
					break
				}
			}
		case "mix":
			// mixed-order key A+T signed with the patched public half
			ti := 1 + e.P%7
			A, _ := bcDecode(pub)
			t.key = bcEncode(bcAdd(A, bcTorsion[ti]))
			t.sig = bcSignAs(seed, t.key, t.msg, dom2(o.Hash, signCtxFor(o, signCtx)))
		default:
			panic("unknown entry kind " + e.K)
		}
		switch e.K2 {
		case "":
		case "tK":
			t.key = resize(t.key, e.Q%32, opSeed)
		case "nK":
			t.key = nil
		case "tS":
			t.sig = resize(t.sig, e.Q%64, opSeed)
		case "lS":
			t.sig = resize(t.sig, 65+e.Q%20, opSeed)
		case "nS":
			t.sig = nil
		case "sL":
			if len(t.sig) == 64 {
				s := new(big.Int).Add(leToInt(t.sig[32:]), bcL)
				copy(t.sig[32:], intToLE32(s))
			}
		case "fS":
			if len(t.sig) == 64 {
				flipBit(t.sig[32:], e.Q)
			}
		case "msg":
			t.msg = append(append([]byte{}, t.msg...), byte(e.Q))
		}
		out[i] = t
	}
	return out
}

func signCtxFor(o Opt, ctx []byte) []byte {
	if !o.signable() {
		return nil
	}
	return ctx
}

// ---------------------------------------------------------------- prepared inputs

// Prepared holds the materialised arguments of an op. In the concurrency
// engine one Prepared is shared by every client that runs the op (same backing
// arrays), as C15 allows for read-only inputs.
type Prepared struct {
	Op    *Op
	G     Guard
	opts  *ed25519.Options
	priv  []byte
	pub   []byte
	msg   []byte
	sig   []byte
	seed  []byte
	keys  []ed25519.PublicKey
	msgs  [][]byte
	sigs  [][]byte
	other interface{}
	sc    []byte
	pt    []byte
	ptArr [32]byte
	scArr [32]byte
}

var loworderX25519 = [][]byte{
	make([]byte, 32),
	append([]byte{1}, make([]byte, 31)...),
	{0xe0, 0xeb, 0x7a, 0x7c, 0x3b, 0x41, 0xb8, 0xae, 0x16, 0x56, 0xe3, 0xfa, 0xf1, 0x9f, 0xc4, 0x6a, 0xda, 0x09, 0x8d, 0xeb, 0x9c, 0x32, 0xb1, 0xfd, 0x86, 0x62, 0x05, 0x16, 0x5f, 0x49, 0xb8, 0x00},
	{0x5f, 0x9c, 0x95, 0xbc, 0xa3, 0x50, 0x8c, 0x24, 0xb1, 0xd0, 0xb1, 0x55, 0x9c, 0x83, 0xef, 0x5b, 0x04, 0x44, 0x5c, 0xc4, 0x58, 0x1c, 0x8e, 0x86, 0xd8, 0x22, 0x4e, 0xdd, 0xd0, 0x9f, 0x11, 0x57},
	{0xec, 0xff, 0xff, 0xff, 0xff, 0xff, 0xff, 0xff, 0xff, 0xff, 0xff, 0xff, 0xff, 0xff, 0xff, 0xff, 0xff, 0xff, 0xff, 0xff, 0xff, 0xff, 0xff, 0xff, 0xff, 0xff, 0xff, 0xff, 0xff, 0xff, 0xff, 0x7f},
}

// the context and variant of the previous VerifyBatch call of this process
var lastBatchCtx []byte
var lastBatchHash int

// stabilityRing (sequential engines): the last few outcomes, re-examined after
// every call.
var stabilityRing []*Outcome
var stabilityNext int

// reuseOptions (io engine only; a single goroutine): most calls go through one
// long-lived Options value whose exported fields are rewritten before each call.
var reuseOptions bool
var sharedOptions = &ed25519.Options{}

func prepare(op *Op) *Prepared {
	p := &Prepared{Op: op}
	g := &p.G
	g.tight = opTight(op)
	o := op.Opt
	p.opts = &ed25519.Options{Hash: o.hash(), Context: string(o.ctxBytes(op.Seed)), ZIP215Verify: o.Zip}
	if reuseOptions && op.Seed&3 != 0 {
		// A caller may keep one Options value and re-target its exported
		// fields between (sequential) calls.
		sharedOptions.Hash, sharedOptions.Context, sharedOptions.ZIP215Verify = p.opts.Hash, p.opts.Context, p.opts.ZIP215Verify
		p.opts = sharedOptions
	}
	seed := signerSeed(op.Seed, 0)
	stdPriv := stded.NewKeyFromSeed(seed)
	switch op.Fn {
	case "GenerateKey":
	case "NewKeyFromSeed":
		p.seed = g.Buf(resize(seed, shapeLen(op.KL, 32), op.Seed))
	case "Sign", "PrivSign":
		ml := op.ML
		if o.Hash == 1 && op.ML >= 0 && op.Alias != 9 {
			ml = 64
		}
		if op.Alias == 9 { // deliberately wrong pre-hash length
			ml = op.ML
		}
		privBytes := []byte(stdPriv)
		if op.Other == 1 {
			// a private key whose seed half does not belong to its public
			// half (same public half as the honest key of this op seed)
			privBytes = append(append([]byte{}, seededBytes(32, op.Seed, lbl("foreign-seed"))...), privBytes[32:]...)
		}
		if op.Other == 2 {
			// a bare seed in a 64-byte buffer: the public half is all zero
			privBytes = append(append([]byte{}, privBytes[:32]...), make([]byte, 32)...)
		}
		p.priv = g.Buf(resize(privBytes, shapeLen(op.KL, 64), op.Seed))
		if ml < 0 {
			p.msg = nil
		} else {
			p.msg = g.Buf(seededBytes(ml, op.Seed, lbl("msg"), 0))
		}
	case "Verify", "VerifyOpts":
		e := Entry{K: "ok", ML: op.ML}
		if op.E != nil {
			e = *op.E
		}
		oo := o
		if op.Fn == "Verify" {
			oo = Opt{}
		}
		t := buildEntries(op.Seed, oo, []Entry{e})[0]
		if op.KL != 0 {
			t.key = resize(t.key, shapeLen(op.KL, 32), op.Seed)
		}
		if op.SL != 0 {
			t.sig = resize(t.sig, shapeLen(op.SL, 64), op.Seed)
		}
		switch op.Alias {
		case 1: // key, message and signature are overlapping views of one array
			arr := g.Raw(len(t.key) + len(t.sig) + 8)
			copy(arr, t.sig)
			copy(arr[len(t.sig):], t.key)
			p.sig = arr[:len(t.sig)]
			p.pub = arr[len(t.sig) : len(t.sig)+len(t.key)]
			p.msg = arr[:len(t.sig)+len(t.key)] // message = sig||key: certainly not what was signed
		default:
			p.pub, p.msg, p.sig = g.Buf(t.key), g.Buf(t.msg), g.Buf(t.sig)
		}
	case "VerifyBatch":
		followCtx, followPrevCtx = nil, nil
		if op.Follow && reuseOptions && len(lastBatchCtx) > 0 && len(lastBatchCtx) <= 255 && lastBatchHash <= 1 {
			o.Hash = lastBatchHash
			nc := seededBytes(len(lastBatchCtx), op.Seed, lbl("follow-ctx"))
			for i := range nc {
				if nc[i] == 0 {
					nc[i] = 1
				}
			}
			if string(nc) == string(lastBatchCtx) {
				nc[0] ^= 0x55
			}
			followCtx, followPrevCtx = nc, lastBatchCtx
			p.opts.Hash, p.opts.Context = o.hash(), string(nc)
		}
		ts := buildEntries(op.Seed, o, op.Entries)
		followCtx, followPrevCtx = nil, nil
		if reuseOptions {
			lastBatchCtx, lastBatchHash = []byte(p.opts.Context), o.Hash
		}
		p.keys = make([]ed25519.PublicKey, len(ts))
		p.msgs = make([][]byte, len(ts))
		p.sigs = make([][]byte, len(ts))
		for i, t := range ts {
			p.keys[i], p.msgs[i], p.sigs[i] = g.Buf(t.key), g.Buf(t.msg), g.Buf(t.sig)
		}
		if op.Alias == 1 && len(ts) >= 2 { // two entries share all their slices
			p.keys[1], p.msgs[1], p.sigs[1] = p.keys[0], p.msgs[0], p.sigs[0]
		}
		if len(op.Skew) == 3 {
			clip := func(n, k int) int {
				if k > n {
					return 0
				}
				return n - k
			}
			p.keys = p.keys[:clip(len(p.keys), op.Skew[0])]
			p.msgs = p.msgs[:clip(len(p.msgs), op.Skew[1])]
			p.sigs = p.sigs[:clip(len(p.sigs), op.Skew[2])]
		}
		if op.Alias == 2 { // nil top-level slices
			if len(ts) == 0 {
				p.keys, p.msgs, p.sigs = nil, nil, nil
			}
		}
	case "Public", "Seed", "Scribble":
		p.priv = g.Buf([]byte(stdPriv))
	case "PrivEqual", "PubEqual":
		base := []byte(stdPriv)
		if op.Fn == "PubEqual" {
			base = base[32:]
		}
		p.priv = g.Buf(base)
		ob := append([]byte{}, base...)
		switch op.Other {
		case 0: // identical bytes, distinct array
			p.other = wrapKey(op.Fn, g.Buf(ob))
		case 1: // one byte differs
			ob[op.ML%len(ob)] ^= byte(1 << uint(op.KL&7))
			p.other = wrapKey(op.Fn, g.Buf(ob))
		case 2: // proper prefix
			p.other = wrapKey(op.Fn, g.Buf(ob[:op.ML%len(ob)]))
		case 3: // foreign type with the same bytes
			if op.Fn == "PrivEqual" {
				p.other = stded.PrivateKey(ob)
			} else {
				p.other = stded.PublicKey(ob)
			}
		case 4:
			p.other = ob
		case 5:
			p.other = nil
		case 6: // the other key type of this package
			if op.Fn == "PrivEqual" {
				p.other = ed25519.PublicKey(ob[32:])
			} else {
				p.other = ed25519.PrivateKey(append(ob, ob...))
			}
		case 7:
			p.other = &ob
		case 8: // longer, same prefix
			p.other = wrapKey(op.Fn, g.Buf(append(ob, 0)))
		}
	case "X25519":
		sc := seededBytes(32, op.Seed, lbl("x25519sc"))
		p.sc = g.Buf(resize(sc, shapeLen(op.KL, 32), op.Seed))
		switch op.Pt {
		case 0: // the exported base-point slice itself (fast path by identity)
			p.pt = x25519.Basepoint
		case 1: // a copy of it
			p.pt = g.Buf(append([]byte{}, x25519.Basepoint...))
		case 2:
			p.pt = g.Buf(seededBytes(32, op.Seed, lbl("x25519pt")))
		case 3:
			p.pt = g.Buf(append([]byte{}, loworderX25519[op.ML%len(loworderX25519)]...))
		case 4:
			p.pt = g.Buf(resize(seededBytes(32, op.Seed, lbl("x25519pt")), shapeLen(op.SL, 32), op.Seed))
		case 5: // a sub-slice view of Basepoint's array is still identity-equal
			p.pt = x25519.Basepoint[:32:32]
		}
	case "ScalarBaseMult", "ScalarMult":
		copy(p.scArr[:], seededBytes(32, op.Seed, lbl("x25519sc")))
		copy(p.ptArr[:], seededBytes(32, op.Seed, lbl("x25519pt")))
		if op.Pt == 3 {
			copy(p.ptArr[:], loworderX25519[op.ML%len(loworderX25519)])
		}
	case "EdPrivToX":
		p.priv = g.Buf([]byte(stdPriv))
	case "EdPubToX":
		e := Entry{K: "ok"}
		if op.E != nil {
			e = *op.E
		}
		p.pub = g.Buf(buildEntries(op.Seed, Opt{}, []Entry{e})[0].key)
	default:
		panic("prepare: unknown fn " + op.Fn)
	}
	g.Seal()
	return p
}

func wrapKey(fn string, b []byte) interface{} {
	if fn == "PrivEqual" {
		return ed25519.PrivateKey(b)
	}
	return ed25519.PublicKey(b)
}

// ---------------------------------------------------------------- outcomes

// Outcome is everything observable about one call.
type Outcome struct {
	Panic            string   `json:"panic,omitempty"`
	Budget           bool     `json:"budget,omitempty"`
	B                string   `json:"b,omitempty"`  // primary byte result (hex), "nil" for nil
	B2               string   `json:"b2,omitempty"` // secondary byte result
	Ok               string   `json:"ok,omitempty"` // "true"/"false" when the call returns a bool
	Valid            string   `json:"valid,omitempty"`
	Err              string   `json:"err,omitempty"`
	Dev              *DevLog  `json:"dev,omitempty"`
	Fallbacks        [][2]int `json:"fallbacks,omitempty"`
	Remainder        [][2]int `json:"remainder,omitempty"`
	Pts              int64    `json:"pts,omitempty"`
	Intact           bool     `json:"intact"`
	Fault            bool     `json:"fault,omitempty"`
	AliasesInput     bool     `json:"aliases_input,omitempty"`
	ArgModified      bool     `json:"arg_modified,omitempty"`
	ClobberedEarlier string   `json:"clobbered_earlier,omitempty"`
	NilRd            bool     `json:"-"`
	Fn               string   `json:"-"`

	valid []bool
	err   error
	b, b2 []byte
	snap  string
}

// snapshot renders everything the call handed back (byte results, validity
// vector, the error value's text) so that it can be compared again later: what
// a call returned must not change when other calls are made afterwards.
func (o *Outcome) snapshot() string {
	e := ""
	if o.err != nil {
		e = o.err.Error()
	}
	return fmt.Sprintf("%x|%x|%v|%s", o.b, o.b2, o.valid, e)
}

// Stable reports whether the returned objects still hold what they held when
// the call returned.
func (o *Outcome) Stable() bool { return o.snap == "" || o.snap == o.snapshot() }

func hexOrNil(b []byte) string {
	if b == nil {
		return "nil"
	}
	return hx(b)
}

func validStr(v []bool) string {
	if v == nil {
		return "nil"
	}
	s := make([]byte, len(v))
	for i, b := range v {
		s[i] = '0'
		if b {
			s[i] = '1'
		}
	}
	return "[" + string(s) + "]"
}

// Digest is the comparison key for "same outcome" (isolation / history
// independence). Point counts are deliberately excluded.
func (o *Outcome) Digest() string {
	dev := ""
	if o.Dev != nil {
		dev = fmt.Sprintf("delivered=%d err=%d", o.Dev.Delivered, o.Dev.ErrKind)
	}
	if o.NilRd {
		// How an implementation consumes crypto/rand.Reader (how much, when,
		// buffered or not) is nobody's business; only whether it failed.
		dev = fmt.Sprintf("nil-reader err=%d", o.Dev.ErrKind)
		if o.Fn == "GenerateKey" && o.Panic == "" && o.err == nil {
			return fmt.Sprintf("GenerateKey(nil): %s intact=%v", o.Ok, o.Intact)
		}
	}
	// (which chunks took the fallback is an internal path, not a result: a
	// correct memoising implementation may legitimately differ there)
	return fmt.Sprintf("panic=%q budget=%v b=%s b2=%s ok=%s valid=%s err=%q dev{%s} intact=%v",
		o.Panic, o.Budget, o.B, o.B2, o.Ok, o.Valid, o.Err, dev, o.Intact)
}

// ---------------------------------------------------------------- fallback hook

var fbLog [zzsimrt.MaxClients][][2]int

//go:norace
func noteFallback(off, n int) {
	c := zzsimrt.Root(zzsimrt.Cur()) // a hook reached on a goroutine of the library belongs to the caller's call
	fbLog[c] = append(fbLog[c], [2]int{off, n})
}

//go:norace
func takeFallbacks() [][2]int {
	c := zzsimrt.Cur()
	f := fbLog[c]
	fbLog[c] = nil
	return f
}

var remLog [zzsimrt.MaxClients][][2]int

//go:norace
func noteRemainder(off, n int) {
	c := zzsimrt.Root(zzsimrt.Cur())
	remLog[c] = append(remLog[c], [2]int{off, n})
}

//go:norace
func takeRemainders() [][2]int {
	c := zzsimrt.Cur()
	f := remLog[c]
	remLog[c] = nil
	return f
}

func installHooks() {
	ed25519.VerifBatchFallback = noteFallback
	ed25519.VerifBatchRemainder = noteRemainder
}

// ---------------------------------------------------------------- execution

func budgetFor(op *Op) int64 {
	return 1000000 + 500000*int64(len(op.Entries))
}

// A caller's reader need not be a pointer: a struct value with a value
// receiver, a function type and an interface holding either are equally
// legal io.Readers (anything that inspects the dynamic type of its reader
// meets them). Which one an op uses is a pure function of its seed.
type valReader struct{ d *Device }

func (v valReader) Read(p []byte) (int, error) { return v.d.Read(p) }

type funcReader func([]byte) (int, error)

func (f funcReader) Read(p []byte) (int, error) { return f(p) }

type arrReader [1]*Device

func (a arrReader) Read(p []byte) (int, error) { return a[0].Read(p) }

func readerKind(op *Op) int { return int(mix64(op.Seed^0x77a9c3) % 6) }

func wrapReader(dev *Device, op *Op) io.Reader {
	switch readerKind(op) {
	case 3:
		return valReader{dev}
	case 4:
		return funcReader(dev.Read)
	case 5:
		return arrReader{dev}
	}
	return dev
}

// opTight: one op in three hands the library slices without any spare
// capacity (cap == len, also for empty and short ones): reslicing beyond the
// length, legal while there is capacity, panics there.
func opTight(op *Op) bool { return mix64(op.Seed^0x7167a1)%3 == 0 }

// lastOpInconclusive: set by execOp when the run of an op decided nothing (see there).
var lastOpInconclusive bool
var runawayChildren bool
var inconclusiveOps int

// execOp performs the call described by p.Op on the prepared inputs.
func execOp(p *Prepared) (out *Outcome) {
	op := p.Op
	out = &Outcome{}
	var dev *Device
	var rd io.Reader
	usesReader := op.Fn == "GenerateKey" || op.Fn == "VerifyBatch" || op.Fn == "PrivSign"
	if usesReader {
		dev = NewDevice(op.Rd)
		if op.NilRd {
			setCurDev(dev)
			defer setCurDev(nil)
		} else {
			rd = wrapReader(dev, op)
		}
	}
	takeFallbacks()
	takeRemainders()
	zzsimrt.BeginOp(budgetFor(op))
	func() {
		defer func() {
			if r := recover(); r != nil {
				if be, ok := r.(zzsimrt.BudgetExceeded); ok {
					out.Budget = true
					out.Panic = "step budget exceeded"
					if be.Limit > 0 && zzsimrt.LiveChildren() > 0 {
						// the caller ran out of steps (not: everybody is blocked)
						// while goroutines of the library are still running: they
						// keep running into the following calls of this process,
						// whose runs then decide nothing (see lastOpInconclusive)
						runawayChildren = true
					}
					return
				}
				out.Panic = fmt.Sprint(r)
				if out.Panic == "" {
					out.Panic = "(empty panic value)"
				}
				if ae, ok := r.(interface{ Addr() uintptr }); ok {
					// a memory fault at a non-nil address (debug.SetPanicOnFault)
					if _, isRT := r.(runtime.Error); isRT && p.G.Contains(ae.Addr()) {
						// ... inside the read-only pages the arguments live in
						out.Panic = "fault: write to caller-supplied (read-only) memory"
						out.Fault = true
					} else {
						out.Panic = "fault: invalid memory access outside the arguments"
					}
				}
			}
		}()
		call(p, rd, out)
	}()
	out.Pts = zzsimrt.EndOp()
	if v, ok := zzsimrt.TakeChildPanic(); ok {
		// whatever the caller saw (often: it waits for ever for the goroutine
		// that died), a real process would be gone
		out.Budget = false
		out.Panic = "panic in a goroutine started by the library (it takes the whole process down): " + fmt.Sprint(v)
	}
	if addr, ok := zzsimrt.TakeChildFault(); ok && out.Panic == "" {
		// a memory fault inside a goroutine the library started during this call
		if p.G.Contains(addr) {
			out.Panic = "fault: write to caller-supplied (read-only) memory (in a goroutine started by the library)"
			out.Fault = true
		} else {
			out.Panic = "fault: invalid memory access outside the arguments (in a goroutine started by the library)"
		}
	}
	if runawayChildren {
		runawayChildren = false
		defer func() { processPolluted = true }()
	}
	if !zzsimrt.BatonTopLevelOnly() && zzsimrt.ChildOverrun() {
		// A goroutine of the library used up its own (very large) step budget.
		// Whether the call would have returned is then not decided by this run -
		// the caller usually ends up waiting for that goroutine - and no oracle
		// is applied to it: inconclusive, counted, never a verdict (DESIGN 2.2b).
		lastOpInconclusive = true
		if out.Panic == "" {
			out.Budget, out.Panic = true, "step budget exceeded (in a goroutine started by the library)"
		}
	}
	out.NilRd, out.Fn = op.NilRd, op.Fn
	out.Fallbacks = takeFallbacks()
	out.Remainder = takeRemainders()
	if dev != nil {
		l := dev.log
		out.Dev = &l
	}
	out.Intact = p.G.Intact() && basepointIntact() && !out.Fault && !out.ArgModified
	// a result must be a fresh object: a slice that points into the caller's
	// (shared, read-only) input hands out a writable view of it
	for _, b := range [][]byte{out.b, out.b2} {
		if len(b) > 0 && p.G.Contains(uintptr(unsafe.Pointer(&b[0]))) {
			out.AliasesInput = true
		}
	}
	out.snap = out.snapshot()
	// a caller may append to what it was given: fill the spare capacity behind
	// each byte result (if results of different calls are windows of one
	// buffer, this lands in somebody else's result)
	if !out.AliasesInput {
		for _, b := range [][]byte{out.b, out.b2} {
			if cap(b) > len(b) && len(b) > 0 {
				full := b[:cap(b)]
				for i := len(b); i < len(full); i++ {
					full[i] = 0x5a
				}
			}
		}
	}
	// now and then a full garbage collection (twice, so that finalizers get
	// their turn) before looking at the earlier results again: a finalizer
	// attached to the wrong object scrubs memory the caller still holds
	if stabilityRing != nil && op.Seed%512 == 3 {
		runtime.GC()
		runtime.GC()
		for i := 0; i < 50; i++ {
			runtime.Gosched()
		}
	}
	// what earlier calls returned belongs to their callers: it must still be
	// what it was (sequential engines; the concurrency engine checks this at
	// the end of each episode)
	if stabilityRing != nil {
		for _, prev := range stabilityRing {
			if prev != nil && !prev.Stable() {
				out.ClobberedEarlier = fmt.Sprintf("%s: returned %s, now %s", prev.Fn, prev.snap, prev.snapshot())
				prev.snap = prev.snapshot()
			}
		}
		stabilityRing[stabilityNext%len(stabilityRing)] = out
		stabilityNext++
	}
	out.B, out.B2 = "", ""
	if out.b != nil || out.Panic == "" {
		out.B = hexOrNil(out.b)
	}
	if out.b2 != nil {
		out.B2 = hexOrNil(out.b2)
	}
	if out.valid != nil {
		out.Valid = validStr(out.valid)
	}
	if out.err != nil {
		out.Err = out.err.Error()
	}
	return out
}

var basepointRef = [32]byte{9}

// basepointIntact: the exported X25519 base-point slice is an input every
// caller shares; the library must never write to it.
func basepointIntact() bool {
	if len(x25519.Basepoint) != 32 {
		return false
	}
	for i, b := range x25519.Basepoint {
		if b != basepointRef[i] {
			return false
		}
	}
	return true
}

// genKeyClass classifies the result of GenerateKey(nil) without pinning down
// how the implementation reaches its entropy: "derived" if exactly 32 bytes
// were drawn from crypto/rand.Reader during the call and the pair is what
// NewKeyFromSeed derives from them, otherwise "coherent" / "incoherent".
func genKeyClass(pub, priv []byte) string {
	if len(pub) != 32 || len(priv) != 64 || !bytesEq(pub, priv[32:]) {
		return "incoherent"
	}
	if d := getCurDev(); d != nil && d.log.Delivered == 32 {
		if bytesEq(priv, stded.NewKeyFromSeed(d.log.Bytes[:32])) {
			return "derived-from-the-32-bytes-read"
		}
		return "incoherent-with-bytes-read"
	}
	if bytesEq(priv, stded.NewKeyFromSeed(priv[:32])) {
		return "coherent"
	}
	return "incoherent"
}

func bytesEq(a, b []byte) bool { return string(a) == string(b) }

func boolStr(b bool) string {
	if b {
		return "true"
	}
	return "false"
}

var callerDstArr [zzsimrt.MaxClients][32]byte

//go:norace
func callerDst() *[32]byte { return &callerDstArr[zzsimrt.Cur()] }

func call(p *Prepared, rd io.Reader, out *Outcome) {
	op := p.Op
	switch op.Fn {
	case "GenerateKey":
		pub, priv, err := ed25519.GenerateKey(rd)
		out.b, out.b2, out.err = pub, priv, err
		if op.NilRd && err == nil {
			out.Ok = genKeyClass(pub, priv)
		}
	case "NewKeyFromSeed":
		out.b = ed25519.NewKeyFromSeed(p.seed)
	case "Sign":
		out.b = ed25519.Sign(ed25519.PrivateKey(p.priv), p.msg)
	case "PrivSign":
		var so crypto.SignerOpts = p.opts
		if op.Opt.Form == 1 {
			so = op.Opt.hash()
		}
		out.b, out.err = ed25519.PrivateKey(p.priv).Sign(rd, p.msg, so)
	case "Verify":
		out.Ok = boolStr(ed25519.Verify(ed25519.PublicKey(p.pub), p.msg, p.sig))
	case "VerifyOpts":
		out.Ok = boolStr(ed25519.VerifyWithOptions(ed25519.PublicKey(p.pub), p.msg, p.sig, p.opts))
	case "VerifyBatch":
		ok, valid, err := ed25519.VerifyBatch(rd, p.keys, p.msgs, p.sigs, p.opts)
		out.Ok, out.valid, out.err = boolStr(ok), valid, err
		if valid == nil {
			out.Valid = "nil"
		}
	case "Public":
		pk := ed25519.PrivateKey(p.priv).Public()
		if b, ok := pk.(ed25519.PublicKey); ok {
			out.b = b
		} else {
			out.Err = fmt.Sprintf("Public() returned %T", pk)
		}
	case "Seed":
		out.b = ed25519.PrivateKey(p.priv).Seed()
	case "PrivEqual":
		out.Ok = boolStr(ed25519.PrivateKey(p.priv).Equal(p.other))
	case "PubEqual":
		out.Ok = boolStr(ed25519.PublicKey(p.priv).Equal(p.other))
	case "X25519":
		out.b, out.err = x25519.X25519(p.sc, p.pt)
	case "ScalarBaseMult":
		// dst is an output-only parameter. A caller may well pass the same
		// array call after call: each client keeps one for the whole process,
		// so what an earlier call left in it is part of the process history
		// (the solo reference starts from zeroes).
		dst := callerDst()
		sc := p.scArr
		x25519.ScalarBaseMult(dst, &sc)
		out.b = append([]byte{}, dst[:]...)
		if sc != p.scArr {
			out.Err = "scalar argument modified"
			out.ArgModified = true
		}
	case "ScalarMult":
		dst := callerDst()
		sc, pt := p.scArr, p.ptArr
		x25519.ScalarMult(dst, &sc, &pt)
		out.b = append([]byte{}, dst[:]...)
		if sc != p.scArr || pt != p.ptArr {
			out.Err = "argument modified"
			out.ArgModified = true
		}
	case "EdPrivToX":
		out.b = x25519.EdPrivateKeyToX25519(ed25519.PrivateKey(p.priv))
	case "EdPubToX":
		b, ok := x25519.EdPublicKeyToX25519(ed25519.PublicKey(p.pub))
		out.b, out.Ok = b, boolStr(ok)
	default:
		panic("call: unknown fn " + op.Fn)
	}
}
