package main

import (
	"bytes"
	"crypto"
	stded "crypto/ed25519"
	"errors"
	"fmt"
	"io"
	"runtime"

	"github.com/oasisprotocol/ed25519"
)

// ---------------------------------------------------------------- C14: GenerateKey under a faulty device

func randDevPlan(r *Rng, need int, uniformOnly bool) *DevPlan {
	p := &DevPlan{CSeed: r.U64()}
	if !uniformOnly && r.Chance(1, 3) {
		p.Content = r.Intn(nContent)
	}
	switch r.Pick(4, 2, 2, 2) {
	case 1:
		p.Frag = []int{1, 2, 3, 5, 7, 8, 15, 16, 17, 31, 32, 33, 64, 100, 1000}[r.Intn(15)]
	case 2:
		k := r.Range(1, 4)
		for i := 0; i < k; i++ {
			f := ReadFault{}
			if r.Chance(2, 3) {
				f.Short = r.Range(1, need+1)
			}
			if r.Chance(1, 3) {
				f.Stall = r.Range(1, 3)
			}
			if r.Chance(1, 8) {
				f.Delay = []int{1, 50, 999, 1999, 2001, 5000, 30001, 60000}[r.Intn(8)]
			}
			p.Reads = append(p.Reads, f)
		}
	case 3:
		p.Frag = r.Range(1, 40)
		p.Reads = []ReadFault{{Stall: r.Range(0, 3)}, {Stall: r.Range(0, 2), Short: r.Range(0, 9)}}
	}
	return p
}

func addFailure(r *Rng, p *DevPlan, need int) {
	switch r.Pick(3, 2, 2, 1) {
	case 0:
		p.FailAt = 1 + r.Range(0, need)
	case 1:
		p.FailAt = 1 + need - r.Intn(3)
		if p.FailAt < 1 {
			p.FailAt = 1
		}
	case 2:
		p.FailAt = 1 + r.Intn(3)
	case 3:
		p.FailAt = 1 + need + r.Range(1, 40) // never reached by a caller that stops in time
	}
	p.FailKind = r.Range(1, nErrKinds-1)
	p.FailWith = r.Chance(1, 2)
	if p.FailKind >= EAgain {
		p.Recover = r.Chance(2, 3)
	} else {
		p.Recover = r.Chance(1, 6)
	}
}

func genC14(r *Rng) *Case {
	if r.Chance(2, 5) {
		n := r.Range(3, 14)
		steps := make([]int, n)
		for i := range steps {
			steps[i] = r.Intn(nAccSteps)
		}
		return &Case{Prop: "C14", Check: "accessors", Steps: steps, Seed: r.U64()}
	}
	op := &Op{Fn: "GenerateKey", Seed: r.U64()}
	op.Rd = randDevPlan(r, 32, false)
	if r.Chance(1, 2) {
		addFailure(r, op.Rd, 32)
	}
	op.NilRd = r.Chance(1, 4)
	return &Case{Prop: "C14", Check: "genkey", Op: op}
}

// enumC14 enumerates the fault space of a single 32-byte ReadFull: failure
// offset x error kind x "with the data"/"on the next call" x fragmentation
// family x stall pattern, plus the fault-free plans.
func enumC14() []*Case {
	var out []*Case
	type shape struct {
		frag  int
		reads []ReadFault
	}
	var shapes []shape
	for _, f := range []int{0, 1, 2, 3, 5, 8, 16, 31, 32, 33, 64} {
		shapes = append(shapes, shape{frag: f})
	}
	for s := 1; s <= 31; s++ {
		shapes = append(shapes, shape{reads: []ReadFault{{Short: s}}})
	}
	shapes = append(shapes,
		shape{reads: []ReadFault{{Stall: 1}}},
		shape{reads: []ReadFault{{Stall: 3}}},
		shape{frag: 11, reads: []ReadFault{{}, {Stall: 2}, {Stall: 1}}},
	)
	seed := uint64(0xC14)
	add := func(p DevPlan, nilrd bool) {
		seed++
		pp := p
		pp.CSeed = mix64(seed)
		out = append(out, &Case{Prop: "C14", Check: "genkey", Op: &Op{Fn: "GenerateKey", Seed: mix64(seed ^ 7), Rd: &pp, NilRd: nilrd}})
	}
	for si, sh := range shapes {
		add(DevPlan{Frag: sh.frag, Reads: sh.reads}, si%5 == 4)
		for at := 0; at <= 33; at++ {
			for kind := 1; kind < nErrKinds; kind++ {
				for _, with := range []bool{false, true} {
					add(DevPlan{Frag: sh.frag, Reads: sh.reads, FailAt: at + 1, FailKind: kind, FailWith: with}, (si+at)%7 == 3)
					if kind >= ESentinel {
						add(DevPlan{Frag: sh.frag, Reads: sh.reads, FailAt: at + 1, FailKind: kind, FailWith: with, Recover: true}, (si+at)%7 == 5)
					}
				}
			}
		}
	}
	for c := 0; c < nContent; c++ {
		add(DevPlan{Content: c}, false)
	}
	return out
}

func errMatches(got error, kind int, delivered int) bool {
	if got == nil {
		return false
	}
	want := devErr(kind)
	if errors.Is(got, want) {
		return true
	}
	// io.ReadFull's convention: EOF after a partial read is reported as
	// ErrUnexpectedEOF. Either spelling names the reader's condition.
	if kind == EEOF && errors.Is(got, io.ErrUnexpectedEOF) {
		return true
	}
	return false
}

func checkGenKey(c *Case, v *Verdict) {
	op := c.Op
	p := prepare(op)
	defer p.G.Release()
	out := execOp(p)
	v.Pts, v.Calls = out.Pts, 1
	dev := out.Dev
	v.noteDev(dev, op.Rd)
	plan := DevPlan{}
	if op.Rd != nil {
		plan = *op.Rd
	}
	shape := "plain"
	if plan.Frag > 0 || len(plan.Reads) > 0 {
		fc := plan.Frag
		if fc > 33 {
			fc = 99
		}
		shape = fmt.Sprintf("frag%d/reads%d", fc, len(plan.Reads))
	}
	fa := plan.FailAt - 1
	if fa > 33 {
		fa = 34
	}
	v.Sig = fmt.Sprintf("genkey nil=%v fail@%d kind=%d with=%v rec=%v %s", op.NilRd, fa, plan.FailKind, plan.FailWith, plan.Recover, shape)
	v.Nontriv = dev.ErrKind != 0 || dev.Shorts > 0 || dev.Stalls > 0 || op.NilRd
	act := fmt.Sprintf("pub=%s priv=%s err=%v panic=%q device{calls=%d asked=%v gave=%v delivered=%d errkind=%d erratbyte=%d errwith=%v}",
		hexOrNil(out.b), hexOrNil(out.b2), out.err, out.Panic, dev.Calls, dev.Asked, dev.Gave, dev.Delivered, dev.ErrKind, dev.ErrAtByte, dev.ErrWith)
	if out.Budget {
		v.fail("genkey-budget", "GenerateKey returns", act, "GenerateKey did not return within its step budget")
		return
	}
	if out.Panic != "" {
		v.fail("genkey-panic", "an ordinary (key | error) result", act, "GenerateKey panicked: %s", out.Panic)
		return
	}
	if !out.Intact {
		v.fail("genkey-intact", "caller memory untouched", act, "caller memory modified")
		return
	}
	pub, priv := out.b, out.b2
	if op.NilRd && dev.Calls == 0 {
		// "If rand is nil, crypto/rand.Reader will be used": the reader that
		// variable holds when the call is made, which in this process is the
		// simulated device. A key that came from anywhere else (the value the
		// variable had at package initialisation, say) is not the key of the
		// stream the caller's process provides.
		v.probe("nil-reader-bypassed-rand.Reader")
		if out.err == nil {
			v.fail("genkey-nil-reader-not-rand.Reader", "32 bytes read from crypto/rand.Reader", act,
				"GenerateKey(nil) returned a key without reading crypto/rand.Reader (as it is at the time of the call)")
		}
		return
	}
	if out.err == nil {
		v.probe("genkey-success")
		if dev.Delivered < 32 {
			v.fail("genkey-short-success", "an error: the device delivered fewer than 32 bytes", act,
				"GenerateKey returned a key although the reader delivered only %d bytes", dev.Delivered)
			return
		}
		if dev.Delivered > 32 {
			v.fail("genkey-overread", "exactly 32 bytes consumed", act, "GenerateKey consumed %d bytes from the reader, not 32", dev.Delivered)
			return
		}
		if dev.ErrKind != 0 && !(dev.ErrAtByte == 32 && dev.ErrWith) {
			// an error that arrived in a separate Read after byte 32 means the
			// caller asked again although it had everything
			if dev.ErrAtByte >= 32 {
				v.fail("genkey-overread", "no Read after the 32nd byte", act, "GenerateKey read again after it had 32 bytes")
				return
			}
			// the reader reported an error before the seed was complete (and
			// recovered later): "the reader's error and no key"
			v.fail("genkey-error-swallowed", fmt.Sprintf("(nil, nil, %v)", devErr(dev.ErrKind)), act,
				"GenerateKey returned a key although the reader reported an error after %d bytes", dev.ErrAtByte)
			return
		}
		if dev.ErrKind != 0 {
			v.probe("genkey-error-with-last-byte-success")
		}
		if !coherent(v, pub, priv, act) {
			return
		}
		want := ed25519.NewKeyFromSeed(dev.Bytes[:32])
		if !bytes.Equal(priv, want) || !bytes.Equal(pub, want[32:]) {
			v.fail("genkey-derivation", fmt.Sprintf("priv=%x", []byte(want)), act, "GenerateKey's key pair is not NewKeyFromSeed(the 32 bytes read)")
			return
		}
		if !bytes.Equal(priv[:32], dev.Bytes[:32]) {
			v.fail("genkey-seedhalf", "priv[:32] == bytes read", act, "private key does not start with the seed that was read")
			return
		}
		return
	}
	v.probe("genkey-error")
	if pub != nil || priv != nil {
		v.fail("genkey-key-with-error", "(nil, nil, err)", act, "GenerateKey returned key material together with an error")
		return
	}
	if dev.ErrKind == 0 {
		v.fail("genkey-spurious-error", "success: the reader never failed", act, "GenerateKey failed although the reader delivered no error")
		return
	}
	if dev.Delivered >= 32 && !(dev.ErrAtByte == 32 && dev.ErrWith) {
		v.fail("genkey-overread", "success after 32 bytes without a further Read", act, "GenerateKey read past the 32nd byte and then failed")
		return
	}
	if dev.Delivered == 32 && dev.ErrAtByte == 32 && dev.ErrWith {
		// The Read that completed the seed also reported an error. io.Reader:
		// "callers should always process the n > 0 bytes returned before
		// considering the error"; the 32 bytes were read, so the key is due
		// (this is what io.ReadFull, the anchored mechanism, does).
		v.fail("genkey-error-with-last-byte", "the key pair: all 32 bytes were delivered", act,
			"GenerateKey read all 32 bytes and still failed, because the Read that delivered the last byte also reported %v", devErr(dev.ErrKind))
		return
	}
	if !errMatches(out.err, dev.ErrKind, dev.Delivered) {
		v.fail("genkey-error-identity", fmt.Sprintf("the reader's error (%v)", devErr(dev.ErrKind)), act, "GenerateKey returned a different error than the reader's")
		return
	}
}

// coherent checks priv = seed||pub, pub = priv[32:], NewKeyFromSeed(Seed())
// round trip, and that pub does not alias priv.
func coherent(v *Verdict, pub, priv []byte, act string) bool {
	if len(pub) != 32 || len(priv) != 64 {
		v.fail("genkey-lengths", "32-byte public and 64-byte private key", act, "wrong key lengths %d/%d", len(pub), len(priv))
		return false
	}
	if !bytes.Equal(pub, priv[32:]) {
		v.fail("genkey-split", "pub == priv[32:]", act, "public key differs from the private key's public half")
		return false
	}
	k := ed25519.PrivateKey(priv)
	again := ed25519.NewKeyFromSeed(k.Seed())
	if !bytes.Equal(again, priv) {
		v.fail("genkey-roundtrip", "NewKeyFromSeed(priv.Seed()) == priv", act, "private key is not the one its seed derives")
		return false
	}
	before := append([]byte{}, priv...)
	pub[0] ^= 0xff
	same := bytes.Equal(before, priv)
	pub[0] ^= 0xff
	// ... nor may the spare capacity behind one result be the other result
	// (an append to the public key would then overwrite the private key)
	for _, pair := range [][2][]byte{{pub, priv}, {priv, pub}} {
		a, b := pair[0], pair[1]
		if cap(a) > len(a) {
			full := a[:cap(a)]
			keep := append([]byte{}, b...)
			for i := len(a); i < len(full); i++ {
				full[i] ^= 0x3c
			}
			if !bytes.Equal(keep, b) {
				same = false
			}
			for i := len(a); i < len(full); i++ {
				full[i] ^= 0x3c
			}
		}
	}
	if !same {
		v.fail("genkey-alias", "returned public key is a fresh copy", act, "GenerateKey's public key aliases the private key")
		return false
	}
	return true
}

// signerWrapper is a foreign type that implements crypto.Signer on top of a
// key of this package (an HSM handle would look like this).
type signerWrapper struct{ k ed25519.PrivateKey }

func (s signerWrapper) Public() crypto.PublicKey { return s.k.Public() }
func (s signerWrapper) Sign(r io.Reader, m []byte, o crypto.SignerOpts) ([]byte, error) {
	return s.k.Sign(r, m, o)
}

// ---------------------------------------------------------------- C14: accessors as a state machine

const nAccSteps = 15

func checkAccessors(c *Case, v *Verdict) {
	r := NewRng(c.Seed, lbl("acc"))
	seed := r.Bytes(32)
	k := ed25519.NewKeyFromSeed(append([]byte{}, seed...))
	v.Calls++
	model := append([]byte{}, k...) // what k must stay equal to
	fail := func(id, exp, act, msg string) {
		v.fail("acc-"+id, exp, act, "%s", msg)
	}
	if len(k) != 64 || !bytes.Equal(k[:32], seed) {
		fail("layout", "priv[:32] == seed", hx(k), "NewKeyFromSeed: private key is not seed || public key")
		return
	}
	var lastPub, lastSeed []byte
	sig := ""
	for _, s := range c.Steps {
		sig += fmt.Sprintf("%x", s)
		v.Calls++
		switch s {
		case 0:
			pk, ok := k.Public().(ed25519.PublicKey)
			if !ok || !bytes.Equal(pk, model[32:]) {
				fail("public", hx(model[32:]), hexOrNil(pk), "Public() differs from the key's public half")
				return
			}
			lastPub = pk
		case 1:
			sd := k.Seed()
			if r.Chance(1, 200) {
				// the copy must survive a garbage collection and its finalizers
				runtime.GC()
				runtime.GC()
				for i := 0; i < 50; i++ {
					runtime.Gosched()
				}
			}
			if !bytes.Equal(sd, model[:32]) {
				fail("seed", hx(model[:32]), hexOrNil(sd), "Seed() differs from the key's seed half")
				return
			}
			lastSeed = sd
		case 2:
			if lastPub != nil {
				for i := range lastPub {
					lastPub[i] ^= 0x5a
				}
				lastPub = lastPub[:cap(lastPub)]
				for i := range lastPub {
					lastPub[i] = 0xee
				}
				lastPub = nil
				v.probe("scribble-public")
			}
		case 3:
			if lastSeed != nil {
				lastSeed = lastSeed[:cap(lastSeed)]
				for i := range lastSeed {
					lastSeed[i] = 0x77
				}
				lastSeed = nil
				v.probe("scribble-seed")
			}
		case 4:
			k2 := ed25519.NewKeyFromSeed(k.Seed())
			if !k.Equal(k2) || !k2.Equal(k) || !bytes.Equal(k2, model) {
				fail("roundtrip", hx(model), hx(k2), "NewKeyFromSeed(k.Seed()) does not equal k")
				return
			}
		case 5:
			pos := r.Intn(64)
			bit := byte(1) << uint(r.Intn(8))
			o := append([]byte{}, k...)
			o[pos] ^= bit
			if k.Equal(ed25519.PrivateKey(o)) || ed25519.PrivateKey(o).Equal(k) {
				fail("equal-priv-1byte", "false", "true", fmt.Sprintf("PrivateKey.Equal is true for keys differing at byte %d", pos))
				return
			}
			if pos >= 32 {
				pa, pb := ed25519.PublicKey(k[32:]), ed25519.PublicKey(o[32:])
				if pa.Equal(pb) || pb.Equal(pa) {
					fail("equal-pub-1byte", "false", "true", fmt.Sprintf("PublicKey.Equal is true for keys differing at byte %d", pos-32))
					return
				}
			}
		case 6:
			// an unset key of this package equals nothing of another type
			for _, f := range []interface{}{nil, []byte(nil), []byte{}, stded.PublicKey(nil), stded.PrivateKey(nil), "", 0, ed25519.PrivateKey(nil)} {
				if ed25519.PublicKey(nil).Equal(f) || (ed25519.PublicKey{}).Equal(f) {
					fail("equal-unset-foreign", "false", "true", fmt.Sprintf("an unset PublicKey equals a value of type %T", f))
					return
				}
			}
			for _, f := range []interface{}{nil, []byte(nil), []byte{}, stded.PublicKey(nil), stded.PrivateKey(nil), "", 0, ed25519.PublicKey(nil)} {
				if ed25519.PrivateKey(nil).Equal(f) || (ed25519.PrivateKey{}).Equal(f) {
					fail("equal-unset-foreign", "false", "true", fmt.Sprintf("an unset PrivateKey equals a value of type %T", f))
					return
				}
			}
			if !ed25519.PublicKey(nil).Equal(ed25519.PublicKey{}) || !ed25519.PrivateKey(nil).Equal(ed25519.PrivateKey{}) {
				fail("equal-unset-same", "true", "false", "two empty keys of the same type are byte-identical but not Equal")
				return
			}
			cp := append([]byte{}, k...)
			// other values that can sign with, or point at, the very same key
			// are still not "byte-identical keys of the same type"
			kk := k
			for _, f := range []interface{}{&kk, signerWrapper{k}, &signerWrapper{k}, crypto.Signer(signerWrapper{k})} {
				if k.Equal(f) {
					fail("equal-foreign", "false", "true", fmt.Sprintf("PrivateKey.Equal is true for a value of type %T", f))
					return
				}
			}
			foreign := []interface{}{stded.PrivateKey(cp), stded.PublicKey(cp[32:]), cp, &cp, nil, string(cp), [64]byte{}, ed25519.PublicKey(cp[32:]), ed25519.PublicKey(cp)}
			for _, f := range foreign {
				if k.Equal(f) {
					fail("equal-foreign", "false", "true", fmt.Sprintf("PrivateKey.Equal is true for a value of type %T", f))
					return
				}
			}
			pk := ed25519.PublicKey(k[32:])
			for _, f := range []interface{}{stded.PublicKey(cp[32:]), cp[32:], nil, ed25519.PrivateKey(cp), ed25519.PrivateKey(cp[32:])} {
				if pk.Equal(f) {
					fail("equal-foreign", "false", "true", fmt.Sprintf("PublicKey.Equal is true for a value of type %T", f))
					return
				}
			}
		case 7:
			cp := ed25519.PrivateKey(append([]byte{}, k...))
			if !cp.Equal(k) || !k.Equal(cp) {
				fail("equal-copy", "true", "false", "Equal is false for a byte-identical copy")
				return
			}
			cp[r.Intn(64)] ^= 0x80
			if cp.Equal(k) {
				fail("equal-copy", "false", "true", "Equal is true after the copy was modified")
				return
			}
		case 8:
			pk := ed25519.PublicKey(k[32:])
			pc := ed25519.PublicKey(append([]byte{}, pk...))
			if !k.Equal(k) || !pk.Equal(pc) || !pc.Equal(pk) {
				fail("equal-self", "true", "false", "Equal is not reflexive")
				return
			}
		case 9:
			// prefixes and extensions are different values
			n := r.Intn(64)
			if k.Equal(ed25519.PrivateKey(k[:n])) || ed25519.PrivateKey(k[:n]).Equal(k) {
				fail("equal-prefix", "false", "true", fmt.Sprintf("Equal is true for a %d-byte prefix", n))
				return
			}
			ext := ed25519.PrivateKey(append(append([]byte{}, k...), 0))
			if k.Equal(ext) || ext.Equal(k) {
				fail("equal-prefix", "false", "true", "Equal is true for an extended key")
				return
			}
			pk := ed25519.PublicKey(k[32:])
			if m := r.Intn(32); pk.Equal(ed25519.PublicKey(pk[:m])) {
				fail("equal-prefix", "false", "true", fmt.Sprintf("PublicKey.Equal is true for a %d-byte prefix", m))
				return
			}
		case 10:
			// a fresh key from the device replaces k
			plan := &DevPlan{CSeed: r.U64(), Frag: r.Intn(9)}
			dev := NewDevice(plan)
			pub, priv, err := ed25519.GenerateKey(dev)
			if err != nil || len(priv) != 64 || len(pub) != 32 {
				fail("genkey", "a key", fmt.Sprint(err), "GenerateKey failed on a healthy reader")
				return
			}
			if dev.log.Delivered != 32 {
				fail("genkey-consumption", "32 bytes read", fmt.Sprint(dev.log.Delivered), "GenerateKey returned a key after reading a different number of bytes than 32")
				return
			}
			pp, ok := priv.Public().(ed25519.PublicKey)
			if !ok || !pp.Equal(pub) || !pub.Equal(pp) || !bytes.Equal(pub, priv[32:]) {
				fail("genkey-public", hx(pub), hexOrNil(pp), "priv.Public() differs from the generated public key")
				return
			}
			if !ed25519.NewKeyFromSeed(priv.Seed()).Equal(priv) || !bytes.Equal(priv.Seed(), dev.log.Bytes[:32]) {
				fail("genkey-seed", hx(dev.log.Bytes[:32]), hx(priv.Seed()), "generated key does not round-trip through its seed")
				return
			}
			k = priv
			model = append([]byte{}, priv...)
			lastPub, lastSeed = nil, nil
			v.probe("generated-key")
		case 13:
			// what a call returned belongs to the caller: wiping or rewriting
			// a derived key must not change what the next derivation from the
			// same seed returns (a memo that shares storage with its result)
			fresh := model[:32]
			if r.Chance(2, 3) {
				fresh = r.Bytes(32) // a seed this process has never derived from
			}
			want := stded.NewKeyFromSeed(fresh)
			t := ed25519.NewKeyFromSeed(append([]byte{}, fresh...))
			switch r.Intn(3) {
			case 0:
				for i := range t {
					t[i] = 0
				}
			case 1:
				for i := 32; i < len(t); i++ {
					t[i] ^= 0xff
				}
			default:
				t[32+r.Intn(32)] ^= 1 << uint(r.Intn(8))
			}
			t2 := ed25519.NewKeyFromSeed(append([]byte{}, fresh...))
			if !bytes.Equal(t2, want) {
				fail("derive-after-scribble", hx(want), hx(t2), "NewKeyFromSeed returned a different key after the caller overwrote an earlier result for the same seed")
				return
			}
			v.probe("derive-scribble-derive")
		case 14:
			// Equal is about bytes, not about the points they decode to:
			// different encodings of one point (sign bit on x = 0, y + p) and
			// different small-order points are all different keys
			encs := append(append([][]byte{}, smallOrderEnc...), nonCanonEnc...)
			a := encs[r.Intn(len(encs))]
			for _, b := range encs {
				eq := ed25519.PublicKey(a).Equal(ed25519.PublicKey(b))
				if eq != bytes.Equal(a, b) {
					fail("equal-encodings", fmt.Sprint(bytes.Equal(a, b)), fmt.Sprint(eq), fmt.Sprintf("PublicKey.Equal(%x, %x) = %v", a, b, eq))
					return
				}
			}
			v.probe("equal-on-special-encodings")
		case 12:
			// a key derived from a seed that sits inside a larger caller buffer
			// (spare capacity behind it) must be a fresh object and must leave
			// the buffer alone
			var g Guard
			buf := g.Buf(k.Seed())
			g.Seal()
			var k2 ed25519.PrivateKey
			faulted := func() (f bool) {
				defer func() {
					if recover() != nil {
						f = true
					}
				}()
				k2 = ed25519.NewKeyFromSeed(buf)
				return false
			}()
			intact := g.Intact()
			if faulted || !intact {
				g.Release()
				fail("seed-buffer", "caller's buffer untouched", "modified", "NewKeyFromSeed wrote into the caller's seed buffer (spare capacity)")
				return
			}
			if !bytes.Equal(k2, model) {
				g.Release()
				fail("seed-buffer-key", hx(model), hx(k2), "NewKeyFromSeed of a sub-slice seed derived a different key")
				return
			}
			g.Release() // the key must survive the disappearance of the seed buffer: it may not alias it
			if cap(k2) >= 64 && !bytes.Equal(k2[:64], model) {
				fail("seed-buffer-alias", hx(model), hx(k2), "derived key aliases the seed buffer")
				return
			}
			v.probe("seed-with-spare-capacity")
		case 11:
			// two accessor results must not alias each other either
			a, _ := k.Public().(ed25519.PublicKey)
			b, _ := k.Public().(ed25519.PublicKey)
			if len(a) == 32 && len(b) == 32 {
				a[0] ^= 1
				if a[0] == b[0] {
					fail("alias-public", "independent copies", "shared", "two Public() results share memory")
					return
				}
			}
			s1, s2 := k.Seed(), k.Seed()
			s1[31] ^= 1
			if s1[31] == s2[31] {
				fail("alias-seed", "independent copies", "shared", "two Seed() results share memory")
				return
			}
		}
		if !bytes.Equal(k, model) {
			fail("key-mutated", hx(model), hx(k), fmt.Sprintf("private key changed after step %d", s))
			return
		}
	}
	// coverage signature: which kinds of steps occurred and how many (not
	// their order: millions of orders would only bloat the evidence)
	var seen [nAccSteps]bool
	for _, s := range c.Steps {
		seen[s] = true
	}
	set := ""
	for i, b := range seen {
		if b {
			set += fmt.Sprintf("%x", i)
		}
	}
	_ = sig
	v.Sig = fmt.Sprintf("acc steps={%s} n=%d", set, len(c.Steps))
	v.Nontriv = len(c.Steps) >= 3
}
