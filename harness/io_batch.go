package main

import (
	"fmt"
	"math/big"
	"sort"
	"strings"

	"github.com/oasisprotocol/ed25519"
	"github.com/oasisprotocol/ed25519/zzsimrt"
)

// ---------------------------------------------------------------- generation

var batchSizes = []int{0, 1, 2, 3, 4, 4, 5, 6, 7, 8, 9, 12, 16, 17, 31, 32, 33, 48, 63, 64, 64, 65, 66, 67, 68, 69, 70, 96, 127, 128, 129, 130, 131, 132, 150, 191, 192, 193, 200}

func genSize(r *Rng, thoroughMax int) int {
	if thoroughMax >= 200 && r.Chance(1, 250) {
		return r.Range(1025, 1100) // a template, a counter or an index type may run out around 1024
	}
	switch r.Pick(6, 3, 1) {
	case 0:
		return batchSizes[r.Intn(len(batchSizes))]
	case 1:
		return r.Range(4, 72)
	}
	return r.Range(0, thoroughMax)
}

func genOpt(r *Rng) Opt {
	var o Opt
	switch r.Pick(10, 4, 4, 1, 1) {
	case 1: // Ed25519ctx
		o.Ctx = []int{1, 2, 3, 32, 254, 255, r.Range(1, 255)}[r.Intn(7)]
	case 2: // Ed25519ph
		o.Hash = 1
		o.Ctx = []int{0, 0, 1, 255, r.Range(0, 255)}[r.Intn(5)]
	case 3: // unsupported hash selector
		o.Hash = r.Range(2, 4)
		o.Ctx = []int{0, 5}[r.Intn(2)]
	case 4: // over-long context
		o.Ctx = []int{256, 257, 300, 1000}[r.Intn(4)]
		o.Hash = r.Intn(2)
	}
	o.Zip = r.Chance(2, 5)
	if o.Ctx > 0 && r.Chance(1, 3) {
		o.CK = 1 + r.Intn(3)
	}
	return o
}

var badKinds = []string{"msg", "fR", "fS", "fA", "sL", "zS", "smA", "smR", "udA", "udR", "ncA", "ncR", "tS", "lS", "nS", "tK", "nK", "bPh", "tor", "fS", "msg", "fR", "noR", "noA", "lK", "noRB", "torR", "pfx", "xdom"}

var secondDamage = []string{"tK", "nK", "tS", "lS", "nS", "sL", "fS", "msg", "sL", "tK"}

// subtleKinds: entries that satisfy the group equation, or part of it, and are
// rejected by exactly one rule. When such an entry is the only bad one of its
// chunk, a batch path that has lost that rule reports it valid.
var subtleKinds = []string{"xdom", "pfx", "noR", "noA", "noRB", "torR", "lK", "phLen", "smRv", "tor0", "tor", "sL", "pfx", "smRv", "ncR"}

func genSubtle(r *Rng, o Opt) Entry {
	e := genBad(r, o)
	if r.Chance(3, 5) {
		e = Entry{K: subtleKinds[r.Intn(len(subtleKinds))], P: r.Intn(1 << 16), Q: r.Intn(1 << 16)}
		if e.K == "phLen" && o.Hash != 1 {
			e.K = "pfx"
		}
		if e.K == "pfx" && r.Chance(1, 2) {
			e.P = []int{1, 3, 5, 7}[r.Intn(4)] // 64, 128, 192, 256: compression-block borders
		}
		if o.Zip && (e.K == "tor" || e.K == "tor0" || e.K == "smRv") {
			e.K = "noRB"
		}
	}
	return e
}

func genBad(r *Rng, o Opt) Entry {
	k := badKinds[r.Intn(len(badKinds))]
	e := Entry{K: k, P: r.Intn(1 << 16), Q: r.Intn(1 << 16)}
	if k == "bPh" && o.Hash != 1 {
		e.K = "msg"
	}
	if k == "tor" && o.Zip {
		// under ZIP-215 a torsion signature is valid; make it bad by the scalar
		e.K = "smA"
	}
	if o.Hash == 1 && r.Chance(1, 6) {
		e.K = "phLen"
	}
	if !o.Zip && r.Chance(1, 8) {
		e.K = []string{"tor0", "smRv", "smRv"}[r.Intn(3)]
	}
	if k == "fS" && r.Chance(1, 3) {
		e.P = 248 + r.Intn(8) // the top bits: S >= 2^253 classes
	}
	if r.Chance(1, 5) {
		e.K2 = secondDamage[r.Intn(len(secondDamage))]
		e.Q = r.Intn(1 << 16)
	}
	return e
}

func genGood(r *Rng, o Opt, i int) Entry {
	e := Entry{K: "ok"}
	switch r.Pick(14, 2, 2, 2, 2) {
	case 4:
		if o.Zip {
			e = Entry{K: []string{"tor0", "smRv"}[r.Intn(2)], P: r.Intn(1 << 16), Q: r.Intn(1 << 16)}
		}
	case 1:
		if i > 0 {
			e = Entry{K: "dup", P: r.Intn(1 << 16)}
		}
	case 2:
		e = Entry{K: "mix", P: r.Intn(1 << 16)}
	case 3:
		if o.Zip {
			e = Entry{K: "tor", P: r.Intn(1 << 16), Q: r.Intn(1<<16) &^ 1}
			if r.Chance(1, 4) {
				e.Q |= 1 // S in [2^252, L)
			}
		}
	}
	return e
}

func msgLen(r *Rng) int {
	switch r.Pick(100, 60, 20, 1) {
	case 0:
		return r.Range(0, 40)
	case 1:
		return []int{0, 1, 63, 64, 65, 111, 112, 127, 128, 129, 200}[r.Intn(11)]
	case 3:
		// messages beyond any internal chunk or buffer size an implementation
		// may have grown (4 KiB, 64 KiB, 128 KiB) - rare, they cost real time
		return []int{4095, 4097, 65535, 65536, 65537, 70001, 131071, 131073, 150001}[r.Intn(9)]
	}
	return r.Range(200, 700)
}

// positionsOfInterest: first, last, chunk borders and their neighbours. The
// 64 here is a generation bias only; no oracle uses it.
func interestingPos(r *Rng, n int) int {
	if n == 0 {
		return 0
	}
	c := []int{0, 1, 2, 3, n - 1, n - 2, n - 3, n - 4, 62, 63, 64, 65, 66, 67, 68, 126, 127, 128, 129, 130, 131, n / 2}
	for tries := 0; tries < 8; tries++ {
		p := c[r.Intn(len(c))]
		if p >= 0 && p < n {
			return p
		}
	}
	return r.Intn(n)
}

func genEntries(r *Rng, n int, o Opt) (es []Entry, profile string) {
	es = make([]Entry, n)
	nkeys := 1 + r.Intn(4)
	if r.Chance(1, 3) {
		nkeys = n + 1
	}
	for i := range es {
		es[i] = genGood(r, o, i)
		es[i].Key = r.Intn(nkeys)
		es[i].ML = msgLen(r)
	}
	if n == 0 {
		return es, "empty"
	}
	setBad := func(i int) {
		b := genBad(r, o)
		b.Key, b.ML = es[i].Key, es[i].ML
		es[i] = b
	}
	switch r.Pick(7, 5, 3, 2, 2, 1, 2, 1, 1, 1) {
	case 9:
		// one whole chunk-sized window made of the SAME kind of forgery (each
		// satisfies the equation with one term removed): if that term has
		// dropped out of the equation for this chunk, nothing in it objects
		profile = "uniformbad"
		k := []string{"noR", "noA", "noRB", "torR", "smRv", "tor0", "pfx", "lK", "sL", "noR", "xdom", "xdom"}[r.Intn(12)]
		lo, hi := 0, n
		if n > 64 && r.Chance(3, 4) {
			lo = 64 * (1 + r.Intn(n/64))
			if lo >= n {
				lo = 64
			}
			hi = lo + 64
			if hi > n {
				hi = n
			}
			if hi-lo < 4 && lo >= 64 {
				lo -= 64
			}
		}
		sameP := r.Intn(1 << 16)
		for i := lo; i < hi; i++ {
			es[i] = Entry{K: k, P: r.Intn(1 << 16), Q: r.Intn(1<<16) &^ 1, Key: es[i].Key, ML: es[i].ML}
			if k == "xdom" {
				es[i].P = sameP // the same foreign domain throughout
			}
		}
	case 8:
		// exactly as many up-front rejections (S >= L) in the first chunk as
		// the LAST chunk has entries, and a bad entry in that last chunk:
		// a count carried from chunk to chunk coincides with a chunk size
		profile = "sLcarry"
		if n > 68 {
			last := n % 64
			if last < 4 {
				last = 4
			}
			placed := 0
			for tries := 0; placed < last && tries < 400; tries++ {
				i := r.Intn(64)
				if es[i].K != "sL" {
					es[i] = Entry{K: "sL", Key: es[i].Key, ML: es[i].ML}
					placed++
				}
			}
			i := n - 1 - r.Intn(last)
			es[i] = Entry{K: []string{"msg", "fS", "fR"}[r.Intn(3)], P: r.Intn(1 << 16), Key: es[i].Key, ML: es[i].ML}
		} else {
			setBad(r.Intn(n))
		}
	case 7:
		// nearly every entry is rejected up front by the scalar rule (S >= L);
		// what is left of the chunk must still be judged correctly
		profile = "sLheavy"
		for i := range es {
			es[i] = Entry{K: "sL", Key: es[i].Key, ML: es[i].ML}
		}
		for j := 1 + r.Intn(2); j > 0; j-- {
			i := interestingPos(r, n)
			es[i] = Entry{K: []string{"noR", "noA", "msg", "ok", "noRB", "torR", "smRv", "tor0", "noRB", "torR"}[r.Intn(10)], P: r.Intn(1 << 16), Q: r.Intn(1 << 16), Key: es[i].Key, ML: es[i].ML}
		}
	case 6:
		// one bad entry, repeated verbatim at the heads of later chunks and at
		// a few other places: state keyed on an entry's content (a memo, a
		// cache) that survives from one chunk to the next shows up here
		profile = "repbad"
		a := r.Intn(n)
		if r.Chance(2, 3) && n > 64 {
			a = r.Intn(64)
		}
		if r.Chance(1, 3) { // the last entry of a chunk, repeated as the first of the next
			for _, c := range []int{63, 127, 191} {
				if c+1 < n && r.Chance(1, 2) {
					a = c
					break
				}
			}
		}
		b := genBad(r, o)
		switch r.Intn(3) {
		case 0: // entries that satisfy the group equation and are rejected by a rule
			b.K = []string{"tor", "tor0", "smRv", "sL", "tor0", "tor"}[r.Intn(6)]
			b.Q &^= 1
			b.K2 = ""
		case 1: // malformed or undecodable key material (what a pre-check would refuse)
			b.K = []string{"tK", "nK", "tK", "udA", "smA", "lK", "tS", "nS"}[r.Intn(8)]
			b.K2 = ""
		}
		b.Key, b.ML = es[a].Key, es[a].ML
		es[a] = b
		if a+1 < n && r.Chance(1, 2) {
			es[a+1] = Entry{K: "dup", P: a}
		}
		for _, p := range []int{64, 65, 66, 128, 129, 192, a + 1, a + 64, n - 1} {
			if p > a && p < n && r.Chance(2, 3) {
				es[p] = Entry{K: "dup", P: a}
			}
		}
		for j := r.Intn(4); j > 0; j-- {
			if p := a + 1 + r.Intn(n-a); p < n {
				es[p] = Entry{K: "dup", P: a}
			}
		}
	case 0:
		profile = "allgood"
	case 1:
		profile = "onebad"
		i := interestingPos(r, n)
		b := genSubtle(r, o)
		b.Key, b.ML = es[i].Key, es[i].ML
		es[i] = b
	case 2:
		profile = "fewbad"
		k := r.Range(2, 5)
		for j := 0; j < k; j++ {
			if r.Chance(1, 2) {
				setBad(interestingPos(r, n))
			} else {
				setBad(r.Intn(n))
			}
		}
	case 3:
		profile = "manybad"
		for i := range es {
			if r.Chance(1, 2) {
				setBad(i)
			}
		}
	case 4:
		profile = "cancel"
		if n < 2 {
			setBad(0)
			break
		}
		pairs := 1 + r.Intn(3)
		if r.Chance(1, 3) {
			pairs = n / 2
		}
		for q := 0; q < pairs; q++ {
			a := r.Intn(n)
			b := r.Intn(n)
			if r.Chance(1, 2) { // keep the pair inside one chunk-sized window
				b = a + 1 + r.Intn(8)
			}
			if a == b || b >= n || es[a].K == "cA" || es[a].K == "cB" || es[b].K == "cA" || es[b].K == "cB" {
				continue
			}
			es[a] = Entry{K: "cA", Q: q, Key: es[a].Key, ML: es[a].ML}
			es[b] = Entry{K: "cB", Q: q, Key: es[b].Key, ML: es[b].ML}
		}
	case 5:
		profile = "allbad"
		for i := range es {
			setBad(i)
		}
	}
	return es, profile
}

func genBatchOp(r *Rng, maxN int) (*Op, string) {
	op := &Op{Fn: "VerifyBatch", Seed: r.U64()}
	op.Opt = genOpt(r)
	n := genSize(r, maxN)
	var profile string
	op.Entries, profile = genEntries(r, n, op.Opt)
	need := 16 * n
	op.Rd = randDevPlan(r, need, profile != "allgood")
	if profile == "allgood" && r.Chance(1, 2) {
		op.Rd.Content = 1 + r.Intn(nContent-1)
	}
	if r.Chance(1, 4) {
		addFailure(r, op.Rd, need)
	}
	op.NilRd = r.Chance(1, 7)
	if r.Chance(1, 40) {
		op.Skew = []int{r.Intn(2), r.Intn(2), r.Intn(3)}
	}
	if r.Chance(1, 30) {
		op.Alias = 1
	}
	return op, profile
}

// boundaryPair returns two scalars a, b < 2^252 whose sum sits on a carry /
// borrow boundary of the modular reduction: a+b = L*c + 2^k*m + pattern, with
// the low k bits all zero, all one, or just around the low bits of L, for k at
// multiples of the 30- and 56-bit limb widths.
func boundaryPair(r *Rng) (string, string) {
	two := big.NewInt(2)
	k := []int{30, 56, 60, 90, 112, 120, 150, 168, 180, 210, 224, 240}[r.Intn(12)]
	mod := new(big.Int).Exp(two, big.NewInt(int64(k)), nil)
	lowL := new(big.Int).Mod(bcL, mod)
	var pat *big.Int
	switch r.Intn(6) {
	case 0:
		pat = big.NewInt(0)
	case 1:
		pat = big.NewInt(int64(r.Intn(3)))
	case 2:
		pat = new(big.Int).Sub(lowL, big.NewInt(int64(1+r.Intn(2))))
	case 3:
		pat = new(big.Int).Set(lowL)
	case 4:
		pat = new(big.Int).Add(lowL, big.NewInt(int64(r.Intn(2))))
	default:
		pat = new(big.Int).Sub(mod, big.NewInt(int64(1+r.Intn(2))))
	}
	pat.Mod(pat, mod)
	// T = (L with its low k bits replaced by the pattern) + m*2^k, m in {0,1,2}
	T := new(big.Int).Sub(bcL, lowL)
	T.Add(T, pat)
	T.Add(T, new(big.Int).Mul(mod, big.NewInt(int64(r.Intn(3)))))
	if r.Chance(1, 4) { // the same boundary one modulus lower / higher
		if r.Chance(1, 2) {
			T.Add(T, bcL)
		} else if T.Cmp(bcL) > 0 {
			T.Sub(T, bcL)
		}
	}
	lim := new(big.Int).Lsh(big.NewInt(1), 252)
	lim.Sub(lim, big.NewInt(1))
	// split T = a + b with both below 2^252
	a := new(big.Int).Set(lim)
	if r.Chance(1, 2) {
		a = new(big.Int).Mod(leToInt(r.Bytes(32)), lim)
	}
	if a.Cmp(T) > 0 {
		a.Set(T)
	}
	b := new(big.Int).Sub(T, a)
	if b.Cmp(lim) > 0 {
		b.Set(lim)
		a.Sub(T, b)
		if a.Cmp(lim) > 0 {
			a.Set(lim)
		}
	}
	return hx(intToLE32(a)), hx(intToLE32(b))
}

// genBoundaryBatch: an all-valid ZIP-215 batch whose scalar halves are chosen
// so that, with every randomiser equal to 1, the running sum of the batch
// equation crosses reduction boundaries.
func genBoundaryBatch(prop string, r *Rng) *Case {
	n := []int{4, 5, 6, 8, 9, 16, 64, 65, 68, 70, 130}[r.Intn(11)]
	op := &Op{Fn: "VerifyBatch", Seed: r.U64(), Opt: Opt{Zip: true}}
	if r.Chance(1, 4) {
		op.Opt.Ctx = 1 + r.Intn(255)
	}
	op.Entries = make([]Entry, n)
	for i := range op.Entries {
		op.Entries[i] = Entry{K: "ok", Key: r.Intn(3), ML: r.Intn(40)}
	}
	place := func(i int) {
		if i+1 >= n {
			return
		}
		a, b := boundaryPair(r)
		op.Entries[i] = Entry{K: "torS", P: r.Intn(14), Q: r.Intn(8), X: a, ML: r.Intn(20)}
		op.Entries[i+1] = Entry{K: "torS", P: r.Intn(14), Q: r.Intn(8), X: b, ML: r.Intn(20)}
	}
	place(0)
	if n > 66 {
		place(64)
	}
	if n > 130 {
		place(128)
	}
	if r.Chance(1, 3) { // all entries in pairs
		for i := 2; i+1 < n; i += 2 {
			if op.Entries[i].K == "ok" {
				place(i)
			}
		}
	}
	op.Rd = &DevPlan{CSeed: r.U64(), Content: COne}
	if r.Chance(1, 4) {
		op.Rd.Content = []int{CSmall, CZero, COneBit, CUniform}[r.Intn(4)]
	}
	if r.Chance(1, 4) {
		op.Rd.Frag = 1 + r.Intn(64)
	}
	return &Case{Prop: prop, Check: "batch", Op: op}
}

// genCommonFactorBatch: an all-valid ZIP-215 batch with small prescribed scalar
// halves and an entropy device whose every randomiser is 2 (or one power of
// two). Whenever none of the products wraps around L, every scalar of the
// batch equation shares that factor, the reduction ends on a scalar >= 2, and
// the last step of the multi-scalar multiplication has to multiply for real.
func genCommonFactorBatch(prop string, r *Rng) *Case {
	n := []int{4, 4, 4, 5, 6}[r.Intn(5)]
	op := &Op{Fn: "VerifyBatch", Seed: r.U64(), Opt: Opt{Zip: true}}
	op.Entries = make([]Entry, n)
	for i := range op.Entries {
		s := make([]byte, 32)
		copy(s, r.Bytes(8+r.Intn(16)))
		op.Entries[i] = Entry{K: "torS", P: r.Intn(14), Q: r.Intn(8), X: hx(s), ML: r.Intn(30)}
	}
	op.Rd = &DevPlan{CSeed: r.U64(), Content: CTwo}
	if r.Chance(1, 4) {
		op.Rd.Content = CPow2
	}
	return &Case{Prop: prop, Check: "batch", Op: op}
}

func genBatchCase(prop string, r *Rng) *Case {
	maxN := 200
	if prop == "C17" && r.Chance(1, 12) {
		return genCommonFactorBatch(prop, r)
	}
	if tierThorough {
		maxN = 300
	}
	if (prop == "C17" && r.Chance(1, 5)) || (prop == "C06" && r.Chance(1, 25)) {
		return genBoundaryBatch(prop, r)
	}
	if prop == "C06" && r.Chance(1, 20) {
		// a batch that follows the previous call: same variant, a different
		// context of the same length, every entry signed under the PREVIOUS
		// context - all of them invalid, unless the verifier's view of the
		// options is stale
		n := []int{4, 5, 8, 16, 64, 65, 68, 70}[r.Intn(8)]
		op := &Op{Fn: "VerifyBatch", Seed: r.U64(), Follow: true, Opt: Opt{Ctx: 1 + r.Intn(255)}, Rd: &DevPlan{CSeed: r.U64()}}
		op.Entries = make([]Entry, n)
		for i := range op.Entries {
			op.Entries[i] = Entry{K: "pctx", Key: r.Intn(3), ML: r.Intn(40)}
		}
		if r.Chance(1, 3) {
			op.Entries[r.Intn(n)].K = "ok"
		}
		return &Case{Prop: prop, Check: "batch", Op: op}
	}
	op, _ := genBatchOp(r, maxN)
	if prop == "C17" && r.Chance(1, 2) {
		// bias towards the property's mechanism: all-valid batches of >= 4
		for tries := 0; tries < 4 && (len(op.Entries) < 4 || !allGoodKinds(op.Entries)); tries++ {
			op.Seed = r.U64()
			n := genSize(r, maxN)
			if n < 4 {
				n += 4
			}
			op.Entries = make([]Entry, n)
			for i := range op.Entries {
				op.Entries[i] = genGood(r, op.Opt, i)
				op.Entries[i].Key = r.Intn(3)
				op.Entries[i].ML = msgLen(r)
			}
			if !op.Opt.signable() {
				op.Opt = Opt{Zip: op.Opt.Zip}
			}
			op.Rd = randDevPlan(r, 16*n, false)
			op.Skew = nil
		}
	}
	return &Case{Prop: prop, Check: "batch", Op: op}
}

// zipOnlyKinds: entries that ZIP-215 rules accept and the default rules reject.
var zipOnlyKinds = []string{"tor0", "smRv", "smRv", "tor0", "ncR"}

// zipPairCase: cases 2k and 2k+1 of a stream are, now and then, the SAME batch
// (same bytes, same context and variant) verified under ZIP-215 rules and under
// the default rules, in either order, with entries on which the two differ: a
// verdict remembered across calls - by the batch path or by single
// verification, which is this property's reference - without the rule set in
// its key is wrong for the second call. Like every case it is a pure function
// of (seed, worker, idx).
func zipPairCase(seed uint64, worker, idx int) *Case {
	r := NewRng(seed, lbl("C06-zippair"), uint64(worker), uint64(idx&^1))
	if !r.Chance(1, 16) {
		return nil
	}
	o := genOpt(r)
	if !o.signable() {
		o = Opt{}
	}
	firstZip := r.Chance(2, 3)
	n := []int{1, 1, 2, 3, 4, 5, 8, 65, 67}[r.Intn(9)]
	op := &Op{Fn: "VerifyBatch", Seed: r.U64(), Rd: &DevPlan{CSeed: r.U64()}}
	op.Entries = make([]Entry, n)
	uniform := r.Chance(1, 2)
	for i := range op.Entries {
		e := Entry{K: "ok", Key: r.Intn(3), ML: msgLen(r)}
		if uniform || r.Chance(1, 3) || i == n-1 {
			e.K = zipOnlyKinds[r.Intn(len(zipOnlyKinds))]
			e.P, e.Q = r.Intn(1<<16), r.Intn(1<<16)
		}
		op.Entries[i] = e
	}
	o.Zip = firstZip
	if idx&1 == 1 {
		o.Zip = !firstZip
	}
	op.Opt = o
	return &Case{Prop: "C06", Check: "batch", Op: op}
}

func allGoodKinds(es []Entry) bool {
	for _, e := range es {
		switch e.K {
		case "ok", "dup", "mix", "tor", "tor0", "smRv", "torS":
		default:
			return false
		}
	}
	return true
}

// enumBatchFaults: for a ladder of batch shapes, fail the device at every read
// boundary (and around it) x error kind x with/without data x fragmentation.
// The read boundaries are measured by a fault-free dry run of the same call.
func enumBatchFaults(prop string) []*Case {
	var out []*Case
	shapes := []int{4, 5, 64, 65, 68, 130}
	if tierThorough {
		shapes = append(shapes, 200)
	}
	if prop == "C13" {
		shapes = []int{4, 65}
	}
	for si, n := range shapes {
		for _, mixed := range []bool{false, true} {
			base := &Op{Fn: "VerifyBatch", Seed: mix64(uint64(0xB0+si)) ^ uint64(n)}
			base.Entries = make([]Entry, n)
			for i := range base.Entries {
				base.Entries[i] = Entry{K: "ok", Key: i % 3, ML: i % 50}
			}
			if mixed {
				base.Entries[n-1].K = "fS"
				base.Entries[n/2].K = "msg"
			}
			base.Rd = &DevPlan{CSeed: mix64(uint64(n))}
			dp := prepare(base)
			dry := execOp(dp)
			dp.G.Release()
			if dry.Dev == nil {
				continue
			}
			offs := map[int]bool{0: true, 1: true}
			cum := 0
			for _, g := range dry.Dev.Gave {
				for _, o := range []int{cum, cum + 1, cum + g/2, cum + g - 1, cum + g} {
					if o >= 0 {
						offs[o] = true
					}
				}
				cum += g
			}
			offs[cum+1] = true
			offs[cum+17] = true
			var list []int
			for o := range offs {
				list = append(list, o)
			}
			sort.Ints(list)
			for _, at := range list {
				for kind := 1; kind <= 3; kind++ {
					for _, with := range []bool{false, true} {
						for _, frag := range []int{0, 16, 1000} {
							if frag == 16 && n > 5 && !(tierThorough && kind == 3) {
								continue
							}
							op := *base
							op.Rd = &DevPlan{CSeed: base.Rd.CSeed, Frag: frag, FailAt: at + 1, FailKind: kind, FailWith: with}
							op.NilRd = (at+kind)%5 == 0
							out = append(out, &Case{Prop: prop, Check: "batch", Op: &op})
						}
					}
				}
			}
		}
	}
	return out
}

// enumBorderRepeats: every kind of damaged entry as the LAST entry of a chunk,
// repeated verbatim as the FIRST entry of the next one (and, as a control, only
// on one side): shortcuts for "same as the previous entry" and memos keyed on
// an entry's content are exactly wrong here.
func enumBorderRepeats(prop string) []*Case {
	var out []*Case
	seed := uint64(0xB0DE)
	kinds := []string{"tK", "nK", "tS", "nS", "lS", "udA", "udR", "smA", "smR", "ncA", "lK", "sL", "fS", "msg", "tor", "tor0", "smRv", "noRB", "torR", "pfx", "xdom", "mix", "ok"}
	for _, border := range []int{63, 127} {
		n := border + 5
		for _, zip := range []bool{false, true} {
			for _, k := range kinds {
				for _, mode := range []int{0, 1, 2} { // both sides, left only, right only
					seed++
					op := &Op{Fn: "VerifyBatch", Seed: mix64(seed), Opt: Opt{Zip: zip}, Rd: &DevPlan{CSeed: mix64(seed ^ 5)}}
					op.Entries = make([]Entry, n)
					for i := range op.Entries {
						op.Entries[i] = Entry{K: "ok", Key: i % 3, ML: i % 11}
					}
					e := Entry{K: k, P: int(seed % 251), Q: int(seed%97) &^ 1, Key: 1, ML: 9}
					switch mode {
					case 0:
						op.Entries[border] = e
						op.Entries[border+1] = Entry{K: "dup", P: border}
					case 1:
						op.Entries[border] = e
					case 2:
						op.Entries[border+1] = e
					}
					out = append(out, &Case{Prop: prop, Check: "batch", Op: op})
				}
			}
		}
	}
	return out
}

// enumUniformForgeries: under every kind of option set, a whole chunk (the only
// one, a full one, the short last one) made of the SAME forgery - each entry
// satisfies the batch equation with exactly one ingredient removed (a term, a
// rule, the signing domain) - so that a batch path that has lost that
// ingredient for this option set finds nothing in the chunk that objects.
func enumUniformForgeries() []*Case {
	var out []*Case
	seed := uint64(0x0F0F)
	type kp struct {
		k string
		p int
	}
	var kinds []kp
	for _, k := range []string{"noR", "noA", "noRB", "torR", "smRv", "tor0", "pfx", "lK", "sL"} {
		kinds = append(kinds, kp{k, 3})
	}
	for p := 0; p < 8; p++ {
		kinds = append(kinds, kp{"xdom", p})
	}
	opts := []Opt{{}, {Ctx: 1}, {Ctx: 255, CK: 3}, {Hash: 1}, {Hash: 1, Ctx: 9}}
	for _, o := range opts {
		for _, zip := range []bool{false, true} {
			for _, k := range kinds {
				for _, shape := range [][3]int{{4, 0, 4}, {64, 0, 64}, {68, 64, 68}} {
					seed++
					if shape[0] == 64 && zip {
						continue // forging is the expensive part of a case; the full chunk once per option set
					}
					oo := o
					oo.Zip = zip
					op := &Op{Fn: "VerifyBatch", Seed: mix64(seed), Opt: oo, Rd: &DevPlan{CSeed: mix64(seed ^ 7)}}
					op.Entries = make([]Entry, shape[0])
					for i := range op.Entries {
						op.Entries[i] = Entry{K: "ok", Key: i % 3, ML: i % 13}
						if i >= shape[1] && i < shape[2] {
							op.Entries[i] = Entry{K: k.k, P: k.p, Q: int(seed%97) &^ 1, Key: i % 3, ML: i % 13}
						}
					}
					out = append(out, &Case{Prop: "C06", Check: "batch", Op: op})
				}
			}
		}
	}
	return out
}

// enumBadSubsets: small-scope enumeration of WHERE the damage sits: every
// subset of bad positions for n = 4..6 (two kinds of damage), and - thorough
// tier - every single bad position of the ladder shapes for six kinds.
func enumBadSubsets() []*Case {
	var out []*Case
	seed := uint64(0x5B5E7)
	mk := func(n int, bad func(i int) string) {
		seed++
		op := &Op{Fn: "VerifyBatch", Seed: mix64(seed), Rd: &DevPlan{CSeed: mix64(seed ^ 99)}}
		op.Entries = make([]Entry, n)
		for i := range op.Entries {
			op.Entries[i] = Entry{K: "ok", Key: i % 2, ML: i % 7}
			if k := bad(i); k != "" {
				op.Entries[i].K = k
				op.Entries[i].P = int(seed % 251)
			}
		}
		out = append(out, &Case{Prop: "C06", Check: "batch", Op: op})
	}
	for n := 4; n <= 6; n++ {
		for mask := 0; mask < 1<<uint(n); mask++ {
			for _, kind := range []string{"fS", "tS"} {
				m, k := mask, kind
				mk(n, func(i int) string {
					if m>>uint(i)&1 == 1 {
						return k
					}
					return ""
				})
			}
		}
	}
	if tierThorough {
		for _, n := range []int{4, 5, 8, 64, 65, 68, 130} {
			for pos := 0; pos < n; pos++ {
				for _, kind := range []string{"msg", "fS", "sL", "smA", "tS", "tK"} {
					p, k := pos, kind
					mk(n, func(i int) string {
						if i == p {
							return k
						}
						return ""
					})
				}
			}
		}
	}
	return out
}

// ---------------------------------------------------------------- the oracle

// single is the reference model of C06/C17: the library's own single
// verifier under the same options; a panic counts as "false".
func single(p *Prepared, i int) (ok bool) {
	defer func() {
		if recover() != nil {
			ok = false
		}
	}()
	var k ed25519.PublicKey
	var m, s []byte
	if i < len(p.keys) {
		k = p.keys[i]
	}
	if i < len(p.msgs) {
		m = p.msgs[i]
	}
	if i < len(p.sigs) {
		s = p.sigs[i]
	}
	return ed25519.VerifyWithOptions(k, m, s, p.opts)
}

func posClass(i, n int) string {
	switch {
	case i == 0:
		return "first"
	case i == n-1:
		return "last"
	case i < 64:
		return "c0"
	case i < 128:
		return "c1"
	}
	return "c2+"
}

func sizeClass(n int) string {
	switch {
	case n < 4:
		return "0-3"
	case n == 4:
		return "4"
	case n < 63:
		return "5-62"
	case n <= 65:
		return "63-65"
	case n <= 69:
		return "66-69"
	case n < 127:
		return "70-126"
	case n <= 131:
		return "127-131"
	case n <= 192:
		return "132-192"
	}
	return "193+"
}

func checkBatch(c *Case, v *Verdict) {
	op := c.Op
	p := prepare(op)
	defer p.G.Release()
	n := len(p.keys)
	countsOK := len(p.keys) == len(p.msgs) && len(p.msgs) == len(p.sigs)
	ctxTooLong := op.Opt.Ctx > 255

	// reference first (it must not be influenced by the batch call)
	want := make([]bool, n)
	allValid := true
	if countsOK && !ctxTooLong {
		for i := 0; i < n; i++ {
			want[i] = single(p, i)
			v.Calls++
			if !want[i] {
				allValid = false
			}
		}
	}
	t0 := zzsimrt.Total()
	out := execOp(p)
	v.Calls++
	v.Pts = zzsimrt.Total() - t0
	dev := out.Dev
	v.noteDev(dev, op.Rd)
	plan := DevPlan{}
	if op.Rd != nil {
		plan = *op.Rd
	}
	uniform := plan.Content == CUniform

	// coverage signature
	badCls := map[string]bool{}
	nbad := 0
	for i, w := range want {
		if !w {
			nbad++
			badCls[posClass(i, n)] = true
		}
	}
	var bl []string
	for k := range badCls {
		bl = append(bl, k)
	}
	sort.Strings(bl)
	fshape := fmt.Sprintf("%s/frag%v/reads%d/fail%v%d%v", contentNames[plan.Content], plan.Frag > 0, len(plan.Reads), plan.FailAt > 0, plan.FailKind, plan.FailWith)
	v.Sig = fmt.Sprintf("n=%s fb=%d bad=%s opt=h%d,c%v,z%v dev=%s nil=%v err=%v", sizeClass(n), len(out.Fallbacks), strings.Join(bl, "+"),
		op.Opt.Hash, op.Opt.Ctx > 0, op.Opt.Zip, fshape, op.NilRd, out.err != nil)
	v.Nontriv = n >= 4 && countsOK
	if n >= 4 && allValid && countsOK && !ctxTooLong {
		v.probe("all-valid-batch")
	}
	if n > 64 {
		v.probe("multi-chunk")
	}
	if len(out.Fallbacks) > 0 {
		v.probe("fallback-taken")
	}
	if len(out.Fallbacks) > 0 && n > 64 && len(out.Fallbacks) < (n+63)/64 {
		v.probe("clean-chunk-next-to-failed-chunk")
	}
	if nbad > 0 && nbad < n {
		v.probe("mixed-batch")
	}

	act := fmt.Sprintf("ok=%s valid=%s err=%v panic=%q fallbacks=%v device{calls=%d delivered=%d errkind=%d erratbyte=%d}",
		out.Ok, validStr(out.valid), out.err, out.Panic, out.Fallbacks, dev.Calls, dev.Delivered, dev.ErrKind, dev.ErrAtByte)
	exp := fmt.Sprintf("valid=%s", validStr(want))
	is := func(props ...string) bool {
		for _, q := range props {
			if c.Prop == q {
				return true
			}
		}
		return false
	}

	if out.ClobberedEarlier != "" && is("C13", "C06") {
		v.fail("batch-earlier-result-changed", "results of earlier calls stay as returned", out.ClobberedEarlier,
			"after this VerifyBatch call, what an earlier call had returned to its caller changed (%s)", out.ClobberedEarlier)
		return
	}
	if !out.Intact && is("C13") {
		v.fail("batch-intact", "caller memory untouched", act, "VerifyBatch modified caller-supplied memory")
		return
	}
	if out.Budget {
		v.probe("budget-overrun")
		if (uniform && is("C06")) || (allValid && n >= 4 && is("C17") && (uniform || plan.Content == CZero)) {
			v.fail("batch-budget", "the call returns", act, "VerifyBatch did not return within %d steps", budgetFor(op))
		}
		return
	}
	if out.Panic != "" {
		if is("C06", "C13", "C17") {
			v.fail("batch-panic", "an ordinary result", act, "VerifyBatch panicked: %s", out.Panic)
		}
		return
	}
	if out.err != nil {
		v.probe("batch-error")
		justified := !countsOK || ctxTooLong || dev.ErrKind != 0
		if !justified && is("C06", "C13") {
			v.fail("batch-err-unjustified", "err == nil (equal counts, context <= 255, healthy reader)", act, "VerifyBatch returned an error without a documented reason")
			return
		}
		if out.Ok == "true" && is("C06") {
			v.fail("batch-err-true", "false together with an error", act, "VerifyBatch returned true together with an error")
		}
		return
	}
	// err == nil
	if !countsOK {
		if is("C06", "C13") {
			v.fail("batch-counts-accepted", "an argument-count error", act, "VerifyBatch accepted slices of different lengths (%d/%d/%d)", len(p.keys), len(p.msgs), len(p.sigs))
		}
		return
	}
	if ctxTooLong {
		if is("C06", "C13") {
			v.fail("batch-ctx-accepted", "a context-length error", act, "VerifyBatch accepted a %d-byte context", op.Opt.Ctx)
		}
		return
	}
	if dev.ErrKind != 0 {
		v.probe("device-failed-but-call-succeeded")
	}
	if is("C06") {
		if len(out.valid) != n {
			v.fail("batch-len", fmt.Sprintf("%d results", n), act, "result vector has %d elements for %d entries", len(out.valid), n)
			return
		}
		conj := true
		for i := 0; i < n; i++ {
			got := out.valid[i]
			conj = conj && got
			if got == want[i] {
				continue
			}
			if !uniform && !want[i] {
				// a degenerate stream may legitimately let an invalid entry
				// through the batch equation; nothing is promised here.
				v.probe("degenerate-stream-accepts-invalid")
				continue
			}
			v.fail("batch-entry", exp, act, "entry %d of %d: batch says %v, single verification says %v", i, n, got, want[i])
			return
		}
		if (out.Ok == "true") != conj {
			v.fail("batch-summary", fmt.Sprintf("summary=%v", conj), act, "summary flag is not the conjunction of the entries")
			return
		}
	}
	if is("C17") && dev.ErrKind == 0 && allValid && n >= 4 {
		// "a batch of 4 or more entries that are all individually valid is
		// accepted by the batch equation itself": at most 3 trailing entries
		// may be verified one by one
		for _, rm := range out.Remainder {
			if rm[1] >= 4 {
				v.fail("c17-remainder-not-batched", "fewer than 4 entries verified one by one", act,
					"entries [%d,%d) of an all-valid %d-entry batch were verified one by one instead of going through the batch equation", rm[0], rm[0]+rm[1], n)
				return
			}
		}
		if len(out.Remainder) == 0 && len(out.Fallbacks) == 0 && dev.Delivered == 0 {
			v.fail("c17-no-entropy-drawn", "randomisers drawn from the entropy source", act,
				"an all-valid %d-entry batch was accepted without a single byte of entropy being read: the randomised batch equation cannot have been evaluated", n)
			return
		}
	}
	if is("C06") && dev.ErrKind == 0 && allValid && n >= 4 && out.err == nil && len(out.Fallbacks) == 0 && dev.Delivered == 0 {
		// C06's soundness clause is about randomisers drawn from the stream the
		// caller supplies (crypto/rand.Reader when it supplies none): a batch
		// accepted by the equation without a byte of it was checked against
		// coefficients that anyone who knows the batch can compute
		v.fail("batch-no-entropy-drawn", "randomisers drawn from the entropy source", act,
			"an all-valid %d-entry batch was accepted by the batch equation although not a single byte was read from the entropy source (nil reader: %v)", n, op.NilRd)
		return
	}
	if is("C17") && dev.ErrKind == 0 {
		// (a stream that failed during the call is not an entropy stream: an
		// implementation may legitimately decide such a chunk by the fallback)
		for _, fb := range out.Fallbacks {
			off, sz := fb[0], fb[1]
			if off < 0 || sz <= 0 || off+sz > n {
				v.fail("c17-fallback-range", "a range inside the batch", act, "fallback reported for [%d,%d) of a %d-entry batch", off, off+sz, n)
				return
			}
			bad := false
			for i := off; i < off+sz; i++ {
				if !want[i] {
					bad = true
				}
			}
			if !bad {
				v.fail("c17-fallback-valid", "no fallback: every entry of the chunk is individually valid", act,
					"entries [%d,%d) are all individually valid, yet the batch equation rejected them and the fallback ran (entropy: %s)", off, off+sz, contentNames[plan.Content])
				return
			}
		}
	}
}
