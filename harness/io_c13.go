package main

import (
	"fmt"
)

// ---------------------------------------------------------------- C13: argument shapes, panics, non-interference

var keyLens = []int{-1, 0, 1, 16, 31, 32, 33, 48, 63, 64, 65, 96, 128}
var sigLens = []int{-1, 0, 1, 31, 32, 33, 62, 63, 64, 65, 96, 128}

func lenCode(n int) int {
	if n < 0 {
		return -1
	}
	return n + 1
}

func genC13(r *Rng) *Case {
	if r.Chance(2, 5) {
		op, _ := genBatchOp(r, 140)
		// heavier on malformed entries and argument-shape faults
		if n := len(op.Entries); n > 0 && r.Chance(2, 3) {
			k := 1 + r.Intn(4)
			for j := 0; j < k; j++ {
				i := r.Intn(n)
				kinds := []string{"tS", "lS", "nS", "tK", "nK", "bPh", "udA", "udR", "smA"}
				e := Entry{K: kinds[r.Intn(len(kinds))], P: r.Intn(1 << 16), Q: r.Intn(1 << 16), Key: op.Entries[i].Key, ML: op.Entries[i].ML}
				if r.Chance(1, 2) {
					e.K2 = []string{"sL", "sL", "fS", "tS", "msg"}[r.Intn(5)]
				}
				if r.Chance(1, 4) {
					e.K, e.K2 = "sL", []string{"tK", "nK", "tK"}[r.Intn(3)]
				}
				if e.K == "bPh" && op.Opt.Hash != 1 {
					e.K = "nS"
				}
				op.Entries[i] = e
			}
		}
		if r.Chance(1, 6) {
			op.Skew = []int{r.Intn(3), r.Intn(3), r.Intn(3)}
		}
		if len(op.Entries) == 0 && r.Chance(1, 2) {
			op.Alias = 2
		}
		return &Case{Prop: "C13", Check: "batch", Op: op}
	}
	op := &Op{Seed: r.U64()}
	op.Fn = []string{"Verify", "VerifyOpts", "VerifyOpts", "Sign", "PrivSign", "NewKeyFromSeed", "X25519", "GenerateKey"}[r.Intn(8)]
	switch op.Fn {
	case "Verify", "VerifyOpts":
		op.Opt = genOpt(r)
		e := Entry{K: "ok", ML: msgLen(r)}
		if r.Chance(1, 2) {
			e = genBad(r, op.Opt)
			e.ML = msgLen(r)
		}
		op.E = &e
		if r.Chance(1, 2) {
			op.KL = lenCode(keyLens[r.Intn(len(keyLens))])
		}
		if r.Chance(1, 2) {
			op.SL = lenCode(sigLens[r.Intn(len(sigLens))])
		}
		if r.Chance(1, 8) {
			op.Alias = 1
		}
	case "Sign", "PrivSign":
		op.Opt = genOpt(r)
		op.Opt.Form = r.Intn(2)
		if op.Opt.Form == 1 {
			op.Opt.Ctx = 0
		}
		op.ML = msgLen(r)
		if r.Chance(1, 8) {
			op.ML = -1
		}
		if r.Chance(1, 4) {
			op.Other = 1 + r.Intn(2) // a 64-byte key whose halves do not belong together (or whose public half is blank): still "any content"
		}
		if op.Opt.Hash == 1 && r.Chance(1, 3) {
			op.Alias = 9 // wrong pre-hash length
			op.ML = []int{0, 1, 32, 63, 65, 128}[r.Intn(6)]
		}
		if r.Chance(1, 2) {
			op.KL = lenCode(keyLens[r.Intn(len(keyLens))])
		}
		op.Rd = &DevPlan{CSeed: r.U64(), Trip: true}
		op.NilRd = r.Chance(1, 3)
	case "NewKeyFromSeed":
		op.KL = lenCode(keyLens[r.Intn(len(keyLens))])
	case "X25519":
		op.Pt = r.Intn(6)
		op.ML = r.Intn(8)
		if r.Chance(1, 2) {
			op.KL = lenCode(keyLens[r.Intn(len(keyLens))])
		}
		if op.Pt == 4 {
			op.SL = lenCode(keyLens[r.Intn(len(keyLens))])
		}
	case "GenerateKey":
		op.Rd = randDevPlan(r, 32, false)
		if r.Chance(2, 3) {
			addFailure(r, op.Rd, 32)
		}
		op.NilRd = r.Chance(1, 4)
	}
	return &Case{Prop: "C13", Check: "shape", Op: op}
}

// enumShapes: the full grid of key x signature lengths for the two
// verifiers, and of key / seed / scalar / point lengths for the other
// functions named by the property.
func enumShapes() []*Case {
	var out []*Case
	seed := uint64(0xC13)
	add := func(op *Op) {
		seed++
		op.Seed = mix64(seed)
		out = append(out, &Case{Prop: "C13", Check: "shape", Op: op})
	}
	for _, fn := range []string{"Verify", "VerifyOpts"} {
		for _, kl := range keyLens {
			for _, sl := range sigLens {
				for _, zip := range []bool{false, true} {
					if fn == "Verify" && zip {
						continue
					}
					add(&Op{Fn: fn, KL: lenCode(kl), SL: lenCode(sl), Opt: Opt{Zip: zip}, E: &Entry{K: "ok", ML: 5}})
				}
			}
		}
	}
	for _, kl := range keyLens {
		add(&Op{Fn: "Sign", KL: lenCode(kl), ML: 3})
		add(&Op{Fn: "PrivSign", KL: lenCode(kl), ML: 3, Rd: &DevPlan{Trip: true}})
		add(&Op{Fn: "PrivSign", KL: lenCode(kl), ML: 64, Opt: Opt{Hash: 1}, Rd: &DevPlan{Trip: true}})
		add(&Op{Fn: "NewKeyFromSeed", KL: lenCode(kl)})
		for _, pl := range keyLens {
			add(&Op{Fn: "X25519", KL: lenCode(kl), Pt: 4, SL: lenCode(pl)})
		}
		for pt := 0; pt < 6; pt++ {
			add(&Op{Fn: "X25519", KL: lenCode(kl), Pt: pt})
		}
	}
	for _, ctx := range []int{255, 256, 300, 510} {
		for ck := 1; ck <= 2; ck++ {
			add(&Op{Fn: "VerifyOpts", Opt: Opt{Ctx: ctx, CK: ck}, E: &Entry{K: "ok", ML: 3}})
			add(&Op{Fn: "PrivSign", Opt: Opt{Ctx: ctx, CK: ck}, ML: 3, Rd: &DevPlan{Trip: true}})
		}
	}
	for h := 0; h <= 4; h++ {
		for _, ctx := range []int{0, 1, 255, 256, 300} {
			for _, ml := range []int{0, 63, 64, 65} {
				add(&Op{Fn: "VerifyOpts", Opt: Opt{Hash: h, Ctx: ctx}, E: &Entry{K: "ok", ML: ml}, Alias: 0})
				add(&Op{Fn: "PrivSign", Opt: Opt{Hash: h, Ctx: ctx}, ML: ml, Alias: 9, Rd: &DevPlan{Trip: true}})
			}
		}
	}
	return out
}

// panicAllowed is the documentation table of C13: where a panic is a
// documented outcome. Only the "only-if" direction is enforced.
func panicAllowed(p *Prepared) (bool, string) {
	op := p.Op
	o := op.Opt
	switch op.Fn {
	case "Sign", "PrivSign":
		return len(p.priv) != 64, "len(privateKey) != 64"
	case "Verify":
		return len(p.pub) != 32, "len(publicKey) != 32"
	case "VerifyOpts":
		ok := len(p.pub) != 32 || o.Ctx > 255 || (o.Hash == 1 && len(p.msg) != 64) || o.Hash >= 2
		return ok, "len(publicKey) != 32, context > 255 bytes, wrong pre-hash length or unsupported hash"
	case "NewKeyFromSeed":
		return len(p.seed) != 32, "len(seed) != 32"
	}
	return false, "never"
}

func checkShape(c *Case, v *Verdict) {
	op := c.Op
	p := prepare(op)
	defer p.G.Release()
	out := execOp(p)
	v.Pts, v.Calls = out.Pts, 1
	v.noteDev(out.Dev, op.Rd)
	allowed, when := panicAllowed(p)
	lens := fmt.Sprintf("priv=%d pub=%d seed=%d msg=%d sig=%d sc=%d pt=%d", len(p.priv), len(p.pub), len(p.seed), len(p.msg), len(p.sig), len(p.sc), len(p.pt))
	act := fmt.Sprintf("panic=%q b=%s ok=%s err=%q intact=%v (%s)", out.Panic, out.B, out.Ok, out.Err, out.Intact, lens)
	v.Sig = fmt.Sprintf("%s kl=%d sl=%d opt=h%d,c%d,f%d alias=%d e=%v panic=%v err=%v", op.Fn, shapeLen(op.KL, -9), shapeLen(op.SL, -9),
		op.Opt.Hash, ctxClass(op.Opt.Ctx), op.Opt.Form, op.Alias, entryKind(op.E), out.Panic != "", out.Err != "")
	v.Nontriv = op.KL != 0 || op.SL != 0 || op.Alias != 0 || op.E != nil || op.Opt.Hash >= 2 || op.Opt.Ctx > 255 || op.Rd != nil
	if out.Panic != "" {
		v.probe("documented-panic")
	}
	if !out.Intact {
		v.fail("shape-intact", "caller memory untouched", act, "%s modified caller-supplied memory", op.Fn)
		return
	}
	if out.ClobberedEarlier != "" {
		v.fail("shape-earlier-result-changed", "results of earlier calls stay as returned", out.ClobberedEarlier,
			"after this %s call, what an earlier call had returned to its caller changed (%s)", op.Fn, out.ClobberedEarlier)
		return
	}
	if out.Budget {
		v.fail("shape-budget", "the call returns", act, "%s did not return within its step budget", op.Fn)
		return
	}
	if out.Panic != "" && !allowed {
		v.fail("shape-panic", "an ordinary result (panic documented only when: "+when+")", act, "%s panicked where no panic is documented: %s", op.Fn, out.Panic)
		return
	}
	if op.Fn == "X25519" && out.err == nil && len(out.b) != 32 && out.Panic == "" {
		v.fail("shape-x25519", "32 bytes or an error", act, "X25519 returned %d bytes and no error", len(out.b))
		return
	}
	if (op.Fn == "PrivSign") && out.Dev != nil && out.Dev.Calls > 0 {
		v.probe("sign-read-entropy")
	}
}

func ctxClass(n int) int {
	switch {
	case n == 0:
		return 0
	case n <= 255:
		return 1
	}
	return 2
}

func entryKind(e *Entry) string {
	if e == nil {
		return "-"
	}
	return e.K
}
