#!/bin/bash
cd /verif
M=dev/mut.sh
run() { echo "=== $1 [$3]"; $M "$1" "$2" $3; }
run a6 'sub("ed25519.go","	return bytes.Equal(priv, xx)","	return len(priv) == len(xx) && bytes.Equal(priv[:SeedSize], xx[:SeedSize])")' "C14"
run d3 'sub("batch_verify.go","if !extended && modm.IsAtMost128bitsVartime(&heap.scalars[max1]) {","if !extended && heap.scalars[max1][limbSize] == 0 {")' "C17 C06"
run d4 'sub("batch_verify.go","		if heap.scalars[max1][limbSize] == 0 {\n			limbSize -= 1\n		}","		if heap.scalars[max1][limbSize] <= 1 && limbSize > 0 {\n			limbSize -= 1\n		}")' "C17 C06"
run d5 'sub("batch_verify.go","	for childr < heap.size {","	for childr <= heap.size {")' "C17 C06"
run d6 'sub("batch_verify.go","	heap.heap[0] = 0\n	heap.size = 0\n","	heap.heap[0] = 0\n	if heap.size > count {\n		heap.size = 0\n	}\n	heap.size = heap.size * 0\n")' "C17"
run e2 'sub("ed25519.go","if len(sig) != SignatureSize || (sig[63]&224 != 0) ||","if (sig[63]&224 != 0) || len(sig) != SignatureSize ||")' "C13 C06"
run e4 'sub("extra/x25519/x25519.go","	if l := len(point); l != 32 {\n		return nil, fmt.Errorf(\"bad point length: %d, expected %d\", l, 32)\n	}\n	copy(in[:], scalar)\n	if &point[0] == &Basepoint[0] {","	copy(in[:], scalar)\n	if &point[0] == &Basepoint[0] {")' "C13"
run f1 'sub("ed25519.go","	return sign(priv, message, f, context), nil","	if rand != nil {\n		var nonce [8]byte\n		if _, err := io.ReadFull(rand, nonce[:]); err == nil && nonce[0] == 0xff && nonce[1] > 0xf0 {\n			message = append([]byte{}, message...)\n		}\n	}\n	return sign(priv, message, f, context), nil")' "C02"
run g1 'sub("ed25519.go","	// hram = H(R,A,m)\n	h := sha512.New()\n","	// hram = H(R,A,m)\n	h := verifyHash\n	h.Reset()\n")
sub("ed25519.go","type dom2Flag byte","var verifyHash = sha512.New()\n\ntype dom2Flag byte")' "C15"
run g2 'sub("ed25519.go","	if len(sig) != SignatureSize || (sig[63]&224 != 0) || !ge25519.UnpackNegativeVartime(&A, publicKey) {\n		return false\n	}","	if len(sig) != SignatureSize || (sig[63]&224 != 0) {\n		return false\n	}\n	if lastKeyOk && bytes.Equal(lastKey[:], publicKey) {\n		A = lastA\n	} else {\n		if !ge25519.UnpackNegativeVartime(&A, publicKey) {\n			return false\n		}\n		copy(lastKey[:], publicKey)\n		lastA = A\n		lastKeyOk = true\n	}")
sub("ed25519.go","type dom2Flag byte","var (\n	lastKey   [32]byte\n	lastA     ge25519.Ge25519\n	lastKeyOk bool\n)\n\ntype dom2Flag byte")' "C15"
run g4 'sub("batch_verify.go","		batch batchHeap\n","		batch = heapPool.Get().(*batchHeap)\n")
sub("batch_verify.go","	for i := range valid {\n		valid[i] = true\n	}","	defer heapPool.Put(batch)\n	for i := range valid {\n		valid[i] = true\n	}")
sub("batch_verify.go","multiScalarmultVartime(&p, &batch, (batchSize*2)+1)","multiScalarmultVartime(&p, batch, (batchSize*2)+1)")
sub("batch_verify.go","type heapIndex int","var heapPool = sync.Pool{New: func() interface{} { return new(batchHeap) }}\n\ntype heapIndex int")
sub("batch_verify.go","\"io\"\n","\"io\"\n\t\"sync\"\n")' "C15 C06"
run g6 'sub("extra/x25519/x25519.go","		var base, zero [32]byte\n		copy(base[:], point)\n		ScalarMult(dst, &in, &base)","		var zero [32]byte\n		base := &scratchBase\n		copy(base[:], point)\n		ScalarMult(dst, &in, base)")
sub("extra/x25519/x25519.go","var basePoint = ","var scratchBase [32]byte\n\nvar basePoint = ")' "C15"
