#!/bin/bash
# dev helper: re-run, for every seeded breaking change, the check that is supposed to catch it
# (first detecting property in meta.json; STEP=k runs every k-th change only) with the default quick settings and VERIF_SEED given
# (default 1). Prints one line per change.  usage: regress.sh [seed] [filter]
seed="${1:-1}"; filter="${2:-}"; step="${STEP:-1}"; n=0
V="$(cd "$(dirname "$0")/.." && pwd)"; cd "$V"
for d in seeded/*/; do
  id=$(basename "$d"); [ "$id" = benign ] && continue
  [ -n "$filter" ] && [[ "$id" != *$filter* ]] && continue
  n=$((n+1)); [ $((n % step)) -ne 0 ] && continue
  prop=$(python3 -c "
import json,sys
m=json.load(open('$d/meta.json'))
v=m.get('detection',{}).get('violations',[])
print(v[0]['property'] if v else m['property'])")
  s=$(mktemp -d /tmp/regress-XXXX)
  rsync -a --exclude .git /repo/ "$s/"
  (cd "$s" && patch -p1 -s < "$V/$d/patch.diff") || { echo "$id PATCH-FAILED"; rm -rf "$s"; continue; }
  t0=$(date +%s)
  out=$(VERIF_REPO="$s" VERIF_SEED="$seed" ./check.sh "$prop" quick 2>&1)
  rc=$?
  t1=$(date +%s)
  chk=$(echo "$out" | grep -m1 "check=" | sed 's/^ *//' | cut -c1-90)
  echo "$id prop=$prop exit=$rc $((t1-t0))s $chk"
  rm -rf "$s"
done
