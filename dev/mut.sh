#!/bin/bash
# dev helper (not a registered check): run checks against a mutated scratch copy of /repo.
# usage: mut.sh <name> '<python edit script using sub(path, old, new)>' <prop> [<prop>...]
set -u
name="$1"; script="$2"; shift 2
d=$(mktemp -d /tmp/mut-$name-XXXX)
rsync -a --exclude .git /repo/ "$d/"
cat > "$d/.edit.py" <<PY
import sys,re
def sub(path, old, new, count=1):
    p="$d/"+path
    s=open(p).read()
    assert s.count(old)>=1, ("pattern not found", path, old)
    s=s.replace(old,new,count)
    open(p,'w').write(s)
$script
PY
python3 "$d/.edit.py" || { echo "EDIT FAILED"; rm -rf "$d"; exit 3; }
rm "$d/.edit.py"
export GOFLAGS=-mod=mod GOPROXY=off GOSUMDB=off GOTOOLCHAIN=local
if [ -z "${SKIPTEST:-}" ]; then
  (cd "$d" && go build ./... && go test -count=1 ./... 2>&1 | grep -v "no test files" | tr '\n' ' '; echo)
fi
for p in "$@"; do
  VERIF_REPO="$d" VERIF_DUR="${VERIF_DUR:-10}" /verif/check.sh "$p" quick 2>&1 | grep -E "VIOLATION|check=|INFRA|violation\(s\)" | head -5
done
rm -rf "$d"
