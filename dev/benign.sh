#!/bin/bash
# dev helper: run checks on every behaviour-preserving change of seeded/benign (all must stay silent).
# usage: dev/benign.sh [checks...]   (default: all six; VERIF_DUR, VERIF_SEED are passed through)
V="$(cd "$(dirname "$0")/.." && pwd)"; cd "$V"
checks="${*:-C14 C02 C13 C06 C17 C15}"
for d in seeded/benign/*/; do
  echo "=== benign $(basename $d)"
  SKIPTEST=1 dev/seed.sh "$V/$d/patch.diff" $checks
done
