#!/bin/bash
cd /verif
for d in seeded/benign/*/; do
  echo "=== benign $(basename $d)"
  VERIF_DUR=10 SKIPTEST=1 dev/seed.sh /verif/$d/patch.diff C14 C02 C13 C06 C17 C15
done
