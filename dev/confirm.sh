#!/bin/bash
# dev helper: confirm an agent-made seeded change: (a) with the patch the suite passes and the demo fails,
# (b) without the patch the demo passes.  usage: confirm.sh <outdir> [extra go test args for demo]
set -u
out="$1"; shift
export GOFLAGS=-mod=mod GOPROXY=off GOSUMDB=off GOTOOLCHAIN=local
res=""
for variant in patched clean; do
  d=$(mktemp -d /tmp/confirm-XXXX)
  rsync -a --exclude .git /repo/ "$d/"
  if [ $variant = patched ]; then
    (cd "$d" && patch -p1 -s < "$out/patch.diff") || { echo "PATCH FAILED"; rm -rf "$d"; exit 3; }
    suite=$(cd "$d" && go build ./... 2>&1 && go test -count=1 ./... 2>&1 | grep -c "^FAIL\|^--- FAIL")
    res="$res suite_fail_lines=$suite"
  fi
  tags=$(grep -ho "go:build [a-z0-9]*demo" "$out"/*_test.go 2>/dev/null | head -1 | awk '{print $2}')
  if [ -n "$tags" ]; then
    mkdir -p "$d/zzdemo" && cp "$out"/*_test.go "$d/zzdemo/"
    demo=$(cd "$d" && go test -count=1 -tags "$tags" "$@" ./zzdemo/ 2>&1 | tail -3 | tr '\n' ' ')
  else
    cp "$out"/*_test.go "$d/${DEMO_DIR:-.}/"
    demo=$(cd "$d" && env ${DEMO_ENV:-} go test -count=1 -run "${DEMO_RUN:-Demo}" "$@" "./${DEMO_DIR:-.}/" 2>&1 | tail -3 | tr '\n' ' ')
  fi
  res="$res | $variant demo: $demo"
  rm -rf "$d"
done
echo "$out:$res"
