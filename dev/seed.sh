#!/bin/bash
# dev helper: run checks against a scratch copy of /repo with a patch applied.
# usage: seed.sh <patch.diff> <prop>...
set -u
patch="$1"; shift
d=$(mktemp -d /tmp/seedrun-XXXX)
rsync -a --exclude .git /repo/ "$d/"
(cd "$d" && patch -p1 -s < "$patch") || { echo "PATCH FAILED"; rm -rf "$d"; exit 3; }
export GOFLAGS=-mod=mod GOPROXY=off GOSUMDB=off GOTOOLCHAIN=local
if [ -z "${SKIPTEST:-}" ]; then
  (cd "$d" && go build ./... && go test -count=1 ./... 2>&1 | grep -v "no test files" | tr '\n' ' '; echo)
fi
for p in "$@"; do
  VERIF_REPO="$d" VERIF_DUR="${VERIF_DUR:-}" "$(cd "$(dirname "$0")/.." && pwd)/check.sh" "$p" quick 2>&1 | grep -E "VIOLATION|check=|INFRA|violation\(s\)" | cut -c1-250 | head -6
done
rm -rf "$d"
