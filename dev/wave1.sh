#!/bin/bash
# dev helper: first wave of hand-written mutants (sensitivity plan of DESIGN section 3)
cd /verif
M=dev/mut.sh
run() { echo "=== $1 [$3]"; $M "$1" "$2" $3; }
run a2 'sub("ed25519.go","io.ReadFull(rand, seed)","io.ReadFull(bufio.NewReader(rand), seed)")
sub("ed25519.go","import (","import (\n\t\"bufio\"")' "C14"
run a3 'sub("ed25519.go","if _, err := io.ReadFull(rand, seed); err != nil {","if _, err := io.ReadFull(rand, seed); err != nil && err != io.ErrUnexpectedEOF {")' "C14"
run a4 'sub("ed25519.go","	pub := make([]byte, PublicKeySize)\n	copy(pub, priv[SeedSize:])\n	return PublicKey(pub)","	return PublicKey(priv[SeedSize:])")' "C14 C15"
run a5 'sub("ed25519.go","	s := make([]byte, SeedSize)\n	copy(s, priv[:SeedSize])\n	return s","	return priv[:SeedSize:SeedSize]")' "C14"
run a6 'sub("ed25519.go","	return bytes.Equal(priv, xx)","	return len(priv) == len(xx) \&\& bytes.Equal(priv[:SeedSize], xx[:SeedSize])".replace("\\\\",""))' "C14"
run a7 'sub("ed25519.go","	publicKey := make([]byte, PublicKeySize)\n	copy(publicKey, privateKey[32:])\n","	publicKey := PublicKey(privateKey[32:])\n")' "C14"
run b2 'sub("batch_verify.go","sigOk, _ = verifyWithOptionsNoPanic(publicKeys[i+offset], messages[i+offset], sigs[i+offset], opts)\n					valid[i+offset] = sigOk","sigOk, _ = verifyWithOptionsNoPanic(publicKeys[i], messages[i], sigs[i], opts)\n					valid[i+offset] = sigOk")' "C06"
run b4 'sub("batch_verify.go","	for i := 0; i < num; i++ {\n		// The NoPanic","	for i := 0; i < num-1; i++ {\n		// The NoPanic")' "C06"
run b5 'sub("batch_verify.go","				ret |= 2                // >= 1 signature in the batch failed\n","")' "C06"
run b6 'sub("batch_verify.go","		if _, err = io.ReadFull(rand, batch.r[:16*batchSize]); err != nil {\n			return false, nil, err\n		}","		_, _ = io.ReadFull(rand, batch.r[:16*batchSize])")' "C06 C13"
run b7 'sub("batch_verify.go","			modm.Expand(&rScalars[i], batch.r[16*i:16*(i+1)])","			modm.Expand(&rScalars[i], batch.r[16*i:16*i+1])")' "C06"
run b10 'sub("batch_verify.go","				if !opts.ZIP215Verify && isSmallOrderVartime(sigs[i+offset][:32]) {","				if isSmallOrderVartime(sigs[i+offset][:32]) {")' "C06 C17"
run d1 'sub("batch_verify.go","heapBuild(heap, ((count+1)/2)|1)","heapBuild(heap, (count+1)/2)")' "C17 C06"
run d2 'sub("batch_verify.go","			batch.points[0] = ge25519.Basepoint\n","			if offset == 0 {\n				batch.points[0] = ge25519.Basepoint\n			}\n")' "C17 C06"
run d3 'sub("batch_verify.go","if !extended && modm.IsAtMost128bitsVartime(&heap.scalars[max1]) {","if !extended \&\& heap.scalars[max1][limbSize] == 0 {".replace("\\\\",""))' "C17 C06"
run e1 'sub("ed25519.go","	a.Reset()\n\n	return privateKey\n","	a.Reset()\n	for i := range seed {\n		seed[i] = 0\n	}\n\n	return privateKey\n")' "C13 C14 C15"
run e2 'sub("ed25519.go","if len(sig) != SignatureSize || (sig[63]&224 != 0) ||","if (len(sig) >= 64 \&\& sig[63]\&224 != 0) || len(sig) < SignatureSize ||".replace("\\\\",""))' "C13 C06"
run e3 'sub("batch_verify.go","				if l := len(publicKeys[i+offset]); l != PublicKeySize {","				if l := len(publicKeys[i+offset]); l < PublicKeySize {")' "C13 C06"
run f1 'sub("ed25519.go","	return sign(priv, message, f, context), nil","	if rand != nil {\n		var nonce [8]byte\n		if _, err := io.ReadFull(rand, nonce[:]); err == nil \&\& nonce[0] == 0xff \&\& nonce[1] > 0xf0 {\n			context = append([]byte{}, context...)\n		}\n	}\n	return sign(priv, message, f, context), nil".replace("\\\\",""))' "C02"
run f2 'sub("ed25519.go","		if l > ContextMaxSize {","		if l >= ContextMaxSize {")' "C02 C06"
run f3 'sub("ed25519.go","	f, err = checkHash(f, message, opts.HashFunc())\n	if err != nil {\n		return nil, err\n	}\n\n	return sign(","	if _, isOpt := opts.(*Options); isOpt || opts.HashFunc() != crypto.SHA512 {\n		f, err = checkHash(f, message, opts.HashFunc())\n		if err != nil {\n			return nil, err\n		}\n	}\n\n	return sign(")' "C02"
