#!/bin/bash
# Entry point of the verification machinery.
#   ./check.sh <property> <quick|thorough>   run one property's check against /repo's working tree
#   ./check.sh replay <file>                 re-execute a replay file
#   ./check.sh setup                         build the orchestrator and warm the Go build cache
#   ./check.sh selftest <determinism|canary> self-checks of the simulator
# Exit codes: 0 property held on everything explored; 1 violation (a line
# "VIOLATION property=<id> replay=<path>" is printed); 2 infrastructure trouble.
set -u
here="$(cd "$(dirname "${BASH_SOURCE[0]}")" && pwd)"
export VERIF_DIR="$here"
export GOFLAGS=-mod=mod GOPROXY=off GOSUMDB=off GOTOOLCHAIN=local
export CARGO_NET_OFFLINE=true PIP_NO_INDEX=1
bin="$here/bin/edsim"

build_orchestrator() {
  mkdir -p "$here/bin"
  if [ ! -x "$bin" ] || [ -n "$(find "$here/sim" -name '*.go' -newer "$bin" -print -quit)" ]; then
    (cd "$here/sim" && go build -o "$bin" ./cmd/edsim) || { echo "check.sh: cannot build the orchestrator" >&2; exit 2; }
  fi
}

case "${1:-}" in
  setup)
    build_orchestrator
    exec "$bin" selftest warm
    ;;
  replay|selftest)
    build_orchestrator
    exec "$bin" "$@"
    ;;
  "")
    echo "usage: $0 <property> <quick|thorough> | replay <file> | setup | selftest <name>" >&2
    exit 2
    ;;
  *)
    build_orchestrator
    exec "$bin" check "$1" "${2:-quick}"
    ;;
esac
