// Package zzsync replaces the standard sync package inside the instrumented
// scratch copy of the library. Blocking operations spin through the
// simulator's scheduler instead of parking the thread (so a client preempted
// while holding a lock cannot wedge the simulation); the real primitives are
// still used underneath, so the race detector gets the genuine
// acquire/release edges.
package zzsync

import (
	"fmt"
	"sort"
	"sync"
	"sync/atomic"

	"github.com/oasisprotocol/ed25519/zzsimrt"
)

type Locker = sync.Locker

type Mutex struct{ mu sync.Mutex }

func (m *Mutex) Lock() {
	zzsimrt.SyncPoint()
	for !m.mu.TryLock() {
		zzsimrt.Blocked()
	}
}
func (m *Mutex) TryLock() bool { return m.mu.TryLock() }
func (m *Mutex) Unlock()       { m.mu.Unlock(); zzsimrt.SyncPoint() }

type RWMutex struct{ mu sync.RWMutex }

func (m *RWMutex) Lock() {
	zzsimrt.SyncPoint()
	for !m.mu.TryLock() {
		zzsimrt.Blocked()
	}
}
func (m *RWMutex) RLock() {
	zzsimrt.SyncPoint()
	for !m.mu.TryRLock() {
		zzsimrt.Blocked()
	}
}
func (m *RWMutex) TryLock() bool   { return m.mu.TryLock() }
func (m *RWMutex) TryRLock() bool  { return m.mu.TryRLock() }
func (m *RWMutex) Unlock()         { m.mu.Unlock(); zzsimrt.SyncPoint() }
func (m *RWMutex) RUnlock()        { m.mu.RUnlock(); zzsimrt.SyncPoint() }
func (m *RWMutex) RLocker() Locker { return (*rlocker)(m) }

type rlocker RWMutex

func (r *rlocker) Lock()   { (*RWMutex)(r).RLock() }
func (r *rlocker) Unlock() { (*RWMutex)(r).RUnlock() }

type Once struct {
	done uint32
	m    Mutex
}

func (o *Once) Do(f func()) {
	if atomic.LoadUint32(&o.done) == 0 {
		o.doSlow(f)
	}
}

func (o *Once) doSlow(f func()) {
	o.m.Lock()
	defer o.m.Unlock()
	if o.done == 0 {
		defer atomic.StoreUint32(&o.done, 1)
		f()
	}
}

// Pool is a deterministic LIFO pool: the real sync.Pool is per-P and, under
// the race detector, randomly drops a quarter of all Puts, which would make
// runs irreproducible.
type Pool struct {
	New func() interface{}

	mu    sync.Mutex
	items []interface{}
}

func (p *Pool) Get() interface{} {
	zzsimrt.SyncPoint()
	p.mu.Lock()
	if n := len(p.items); n > 0 {
		x := p.items[n-1]
		p.items[n-1] = nil
		p.items = p.items[:n-1]
		p.mu.Unlock()
		return x
	}
	p.mu.Unlock()
	if p.New != nil {
		return p.New()
	}
	return nil
}

func (p *Pool) Put(x interface{}) {
	if x == nil {
		return
	}
	p.mu.Lock()
	p.items = append(p.items, x)
	p.mu.Unlock()
	zzsimrt.SyncPoint() // a natural preemption point: right after an object went back to the pool
}

// Map delegates to the real sync.Map (no operation of it blocks, and the
// race detector models it natively). Range is made deterministic: the real
// one iterates in random order, which would break replay.
type Map struct{ m sync.Map }

func (m *Map) Load(key interface{}) (interface{}, bool) { zzsimrt.SyncPoint(); return m.m.Load(key) }
func (m *Map) Store(key, value interface{}) {
	zzsimrt.SyncPoint()
	m.m.Store(key, value)
	zzsimrt.SyncPoint()
}
func (m *Map) LoadOrStore(key, value interface{}) (interface{}, bool) {
	zzsimrt.SyncPoint()
	return m.m.LoadOrStore(key, value)
}
func (m *Map) LoadAndDelete(key interface{}) (interface{}, bool) {
	zzsimrt.SyncPoint()
	return m.m.LoadAndDelete(key)
}
func (m *Map) Delete(key interface{}) { zzsimrt.SyncPoint(); m.m.Delete(key) }
func (m *Map) Swap(key, value interface{}) (interface{}, bool) {
	zzsimrt.SyncPoint()
	return m.m.Swap(key, value)
}
func (m *Map) CompareAndSwap(key, old, new interface{}) bool {
	zzsimrt.SyncPoint()
	return m.m.CompareAndSwap(key, old, new)
}
func (m *Map) CompareAndDelete(key, old interface{}) bool {
	zzsimrt.SyncPoint()
	return m.m.CompareAndDelete(key, old)
}
func (m *Map) Range(f func(key, value interface{}) bool) {
	zzsimrt.SyncPoint()
	type kv struct {
		k, v interface{}
		s    string
	}
	var all []kv
	m.m.Range(func(k, v interface{}) bool {
		all = append(all, kv{k, v, fmt.Sprintf("%T:%v", k, k)})
		return true
	})
	sort.Slice(all, func(i, j int) bool { return all[i].s < all[j].s })
	for _, e := range all {
		if !f(e.k, e.v) {
			return
		}
	}
}

// OnceFunc mirrors sync.OnceFunc on top of the shim's Once.
func OnceFunc(f func()) func() {
	var o Once
	return func() { o.Do(f) }
}

// WaitGroup: Wait spins through the scheduler instead of parking the thread;
// the real WaitGroup underneath provides the happens-before edges.
type WaitGroup struct {
	wg sync.WaitGroup
	n  int64
}

func (w *WaitGroup) Add(delta int) {
	atomic.AddInt64(&w.n, int64(delta))
	w.wg.Add(delta)
	zzsimrt.SyncPoint()
}
func (w *WaitGroup) Done() { w.Add(-1) }
func (w *WaitGroup) Wait() {
	zzsimrt.SyncPoint()
	for atomic.LoadInt64(&w.n) > 0 {
		zzsimrt.Blocked()
	}
	w.wg.Wait()
}

// Cond: Wait spins through the scheduler until the next Signal/Broadcast.
// Signal wakes every waiter (callers of sync.Cond must re-check their
// condition in a loop anyway); the internal mutex provides the
// happens-before edge from the signaller to the woken waiter.
type Cond struct {
	L Locker

	mu  sync.Mutex
	gen uint64
}

func NewCond(l Locker) *Cond { return &Cond{L: l} }

func (c *Cond) generation() uint64 {
	c.mu.Lock()
	g := c.gen
	c.mu.Unlock()
	return g
}

func (c *Cond) Wait() {
	g := c.generation()
	c.L.Unlock()
	zzsimrt.SyncPoint()
	for c.generation() == g {
		zzsimrt.Blocked()
	}
	c.L.Lock()
}

func (c *Cond) Signal()    { c.Broadcast() }
func (c *Cond) Broadcast() { c.mu.Lock(); c.gen++; c.mu.Unlock(); zzsimrt.SyncPoint() }
