// Package zztime replaces the clock-reading and timer-creating functions of
// the standard time package inside the instrumented scratch copy of the
// library (the instrumenter rewrites time.Now, time.Since, time.Until,
// time.Sleep, time.After, time.AfterFunc, time.NewTimer and the type
// time.Timer; durations, constants and formatting stay with the real
// package). Everything runs on the simulator's discrete-event clock.
package zztime

import (
	"time"

	"github.com/oasisprotocol/ed25519/zzsimrt"
)

var epoch = time.Date(2026, 1, 1, 0, 0, 0, 0, time.UTC)

func Now() time.Time                  { return epoch.Add(time.Duration(zzsimrt.SimNow())) }
func Since(t time.Time) time.Duration { return Now().Sub(t) }
func Until(t time.Time) time.Duration { return t.Sub(Now()) }
func Sleep(d time.Duration)           { zzsimrt.SleepSim(int64(d)) }

// Timer mirrors time.Timer on the simulated clock.
type Timer struct {
	C <-chan time.Time

	c  chan time.Time
	t  *zzsimrt.SimTimer
	fn func()
}

func NewTimer(d time.Duration) *Timer {
	tm := &Timer{c: make(chan time.Time, 1)}
	tm.C = tm.c
	tm.arm(d)
	return tm
}

func (tm *Timer) arm(d time.Duration) {
	tm.t = zzsimrt.AddTimer(int64(d), func() {
		if tm.fn != nil {
			// the function of an AfterFunc timer runs as a client of its own
			go zzsimrt.GoCall(zzsimrt.Spawn(), tm.fn)
			return
		}
		select {
		case tm.c <- Now():
		default:
		}
	})
}

func (tm *Timer) Stop() bool { return zzsimrt.StopTimer(tm.t) }

func (tm *Timer) Reset(d time.Duration) bool {
	active := zzsimrt.StopTimer(tm.t)
	tm.arm(d)
	return active
}

func After(d time.Duration) <-chan time.Time { return NewTimer(d).C }

func AfterFunc(d time.Duration, f func()) *Timer {
	tm := &Timer{fn: f}
	tm.arm(d)
	return tm
}
