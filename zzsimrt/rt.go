// Package zzsimrt is the runtime of the deterministic simulator. It is copied
// into a scratch copy of the library under test (never into /repo) and is the
// only thing the instrumented library calls.
//
// Every function that touches the package's state is //go:norace and uses raw
// system calls for the baton, so the Go race detector sees neither the
// scheduler's state nor any happens-before edge created by it: under a fully
// serialised, replayable schedule the detector still judges only the
// synchronisation the library itself performs.
package zzsimrt

import (
	"reflect"
	"runtime"
	"runtime/debug"
	"sync/atomic"
	"syscall"
	"unsafe"
)

// UntilSync, as a slice, means: run until the next synchronisation operation of
// the library (lock, unlock, pool get/put, map access, channel operation, go
// statement) and yield right after it.
const UntilSync = int64(-1)

// Kinds a client reports to the scheduler.
const (
	KPreempt  = 1 // slice used up inside an operation
	KOpDone   = 2 // an operation finished (client parks before the next one)
	KTaskDone = 3 // client finished its list; it does not park
	KBlocked  = 4 // client is spinning on a shim lock held by somebody else
	KHandoff  = 5 // client is about to complete a rendezvous on an unbuffered channel: the baton goes straight to its partner; the client does not park now (see WaitSend)
)

const MaxClients = 1024

// BudgetExceeded is the panic value raised by Point when a call runs past its
// step budget.
type BudgetExceeded struct{ Limit int64 }

var (
	total     int64 // points executed by everybody since process start
	opPts     int64 // points of the current operation of the running client
	limit     int64 // budget for opPts; 0 = none
	countdown int64 // points until the running client must yield; <=0 = never
	baton     bool
	cur       int
	syncYield bool    // yield at the next synchronisation operation
	syncRec   bool    // record at which step counts synchronisation operations happen
	syncLog   []int64 // ... for the current operation

	schedR, schedW int
	taskR, taskW   [MaxClients]int

	freeIDs    []int // ids of finished library goroutines, reusable
	nextDyn    int   // next id for a goroutine started by the library
	spawnQ     []int // ids handed out since the scheduler last looked
	deadlocked bool  // set by the scheduler: nobody can make progress any more
	childOver  bool  // a library goroutine ran past its step budget

	// unbuffered channels and closed channels (see WaitSend)
	recvReady  [MaxClients]chanWaiter // clients ready to receive on an unbuffered channel, in arrival order
	nRecvReady int
	committed  [MaxClients]bool       // a sender has committed itself to this receiver
	closedCh   [maxClosed]uintptr     // channels the library has closed
	keepCh     [maxClosed]interface{} // ... kept alive, so that their addresses are not reused
	nClosed    int
	handoffTo  int               // partner named by the last KHandoff
	handoffs   int64             // rendezvous completed
	savedPts   [MaxClients]int64 // per-operation counters of a client between a handoff and its re-entry
	savedLimit [MaxClients]int64
)

// (fixed arrays and explicit loops: append, copy and maps go through runtime
// helpers that report to the race detector whatever the caller's pragma says)
const maxClosed = 8192

type chanWaiter struct {
	ch uintptr
	id int
}

// childBudget bounds the steps of one goroutine started by the library.
const childBudget = 200000000

// Point is inserted by the instrumenter at every function entry, loop
// iteration and statement touching a package-level variable.
//
//go:norace
func Point() {
	total++
	opPts++
	if limit != 0 && opPts > limit {
		l := limit
		limit = 0
		panic(BudgetExceeded{l})
	}
	if countdown > 0 {
		countdown--
		if countdown == 0 {
			Yield(KPreempt)
		}
	}
}

// SyncPoint is what the sync shims call around every synchronisation
// operation: an ordinary point, a recording site for the solo references, and
// the place where a client that was told to run "until the next
// synchronisation operation" gives the baton back.
//
//go:norace
func SyncPoint() {
	Point()
	if syncRec && len(syncLog) < 400 {
		syncLog = append(syncLog, opPts)
	}
	if syncYield && baton {
		syncYield = false
		Yield(KPreempt)
	}
}

// RecordSync switches the recording of synchronisation steps on or off.
//
//go:norace
func RecordSync(on bool) { syncRec = on }

// TakeSync returns the steps of the current operation at which
// synchronisation operations happened, and clears the list.
//
//go:norace
func TakeSync() []int64 {
	out := append([]int64(nil), syncLog...)
	syncLog = syncLog[:0]
	return out
}

//go:norace
func Total() int64 { return total }

//go:norace
func OpPoints() int64 { return opPts }

// BeginOp resets the per-operation counter and arms the budget.
//
//go:norace
func BeginOp(budget int64) { opPts = 0; limit = budget; deadPanicked = false }

var deadPanicked bool // the running call has already been ended once because nobody could make progress

// EndOp disarms the budget and returns the points the operation took.
//
//go:norace
func EndOp() int64 { limit = 0; return opPts }

//go:norace
func Cur() int { return cur }

//go:norace
func BatonOn() bool { return baton }

//go:norace
func rawRead(fd int) uint64 {
	var buf [8]byte
	for {
		n, _, e := syscall.Syscall(syscall.SYS_READ, uintptr(fd), uintptr(unsafe.Pointer(&buf[0])), 8)
		if e == syscall.EINTR {
			continue
		}
		if e != 0 || n != 8 {
			fatal("zzsimrt: baton read failed")
		}
		break
	}
	return *(*uint64)(unsafe.Pointer(&buf[0]))
}

//go:norace
func rawWrite(fd int, v uint64) {
	var buf [8]byte
	*(*uint64)(unsafe.Pointer(&buf[0])) = v
	for {
		n, _, e := syscall.Syscall(syscall.SYS_WRITE, uintptr(fd), uintptr(unsafe.Pointer(&buf[0])), 8)
		if e == syscall.EINTR {
			continue
		}
		if e != 0 || n != 8 {
			fatal("zzsimrt: baton write failed")
		}
		break
	}
}

// Tracing of baton traffic to stderr (development aid): ZZSIM_TRACE=1.
var tracing = func() bool { v, ok := syscall.Getenv("ZZSIM_TRACE"); return ok && v != "" }()

//go:norace
func trace(tag string, a, b int) {
	if !tracing {
		return
	}
	var buf [96]byte
	n := copy(buf[:], tag)
	put := func(v int) {
		buf[n] = ' '
		n++
		if v < 0 {
			buf[n] = '-'
			n++
			v = -v
		}
		var t [20]byte
		i := len(t)
		for {
			i--
			t[i] = byte('0' + v%10)
			v /= 10
			if v == 0 {
				break
			}
		}
		n += copy(buf[n:], t[i:])
	}
	put(a)
	put(b)
	buf[n] = '\n'
	syscall.Write(2, buf[:n+1])
}

//go:norace
func fatal(msg string) {
	syscall.Write(2, []byte(msg+"\n"))
	syscall.Exit(2)
}

// InitBaton creates the pipes for n clients. Call before starting clients.
//
//go:norace
func InitBaton(n int) {
	if n > MaxClients {
		fatal("zzsimrt: too many clients")
	}
	if schedR == 0 && schedW == 0 {
		var p [2]int
		if err := syscall.Pipe(p[:]); err != nil {
			fatal("zzsimrt: pipe")
		}
		schedR, schedW = p[0], p[1]
	}
	for i := 0; i < n; i++ {
		ensurePipe(i)
	}
	nextDyn = n
	freeIDs = freeIDs[:0]
	spawnQ = spawnQ[:0]
	deadlocked = false
	liveChildren = 0
	for i := range rootOf {
		rootOf[i] = 0
	}
	resetChans()
	baton = true
}

//go:norace
func ensurePipe(i int) {
	if taskR[i] == 0 && taskW[i] == 0 {
		var p [2]int
		if err := syscall.Pipe(p[:]); err != nil {
			fatal("zzsimrt: pipe")
		}
		taskR[i], taskW[i] = p[0], p[1]
	}
}

// Spawn is evaluated by the parent at a `go` statement of the library (the
// instrumenter rewrites `go f(x)` into `go zzsimrt.GoCallL(f, x, zzsimrt.Spawn())`):
// it reserves a client id for the new goroutine and tells the scheduler.
//
//go:norace
func Spawn() int {
	if !baton {
		return -1
	}
	var id int
	if n := len(freeIDs); n > 0 {
		id = freeIDs[n-1]
		freeIDs = freeIDs[:n-1]
	} else {
		if nextDyn >= MaxClients {
			fatal("zzsimrt: the library started more goroutines than the simulator has client slots")
		}
		id = nextDyn
		nextDyn++
	}
	ensurePipe(id)
	spawnQ = append(spawnQ, id)
	childSeen = true
	liveChildren++
	rootOf[id] = Root(cur) + 1 // 0 means: a caller
	return id
}

// rootOf[id]: the caller client on whose behalf a goroutine of the library runs
// (the client that executed the go statement, or that one's root); -1 for callers.
var rootOf [MaxClients]int

// Root returns the caller client a client works for (itself, if it is a caller).
//
//go:norace
func Root(id int) int {
	if id >= 0 && id < MaxClients && rootOf[id] > 0 {
		return rootOf[id] - 1
	}
	return id
}

// Release makes the id of a finished library goroutine reusable (scheduler side).
//
//go:norace
func Release(id int) { freeIDs = append(freeIDs, id) }

// TakeSpawned returns the ids reserved since the last call (scheduler side).
//
//go:norace
func TakeSpawned() []int {
	if len(spawnQ) == 0 {
		return nil
	}
	out := append([]int(nil), spawnQ...)
	spawnQ = spawnQ[:0]
	return out
}

// SetDeadlocked tells every client spinning in Blocked that waiting is futile.
//
//go:norace
func SetDeadlocked(v bool) {
	deadlocked = v
	if v {
		trace("deadlocked", 0, 0)
	}
}

//go:norace
func ChildOverrun() bool { v := childOver; childOver = false; return v }

var (
	liveChildren   int
	childFaulted   bool
	childFaultAddr uintptr
)

//go:norace
func childEnded() { liveChildren-- }

//go:norace
func noteChildFault(a uintptr) { childFaulted, childFaultAddr = true, a }

var (
	childPanicked bool
	childPanicVal interface{}
)

//go:norace
func noteChildPanic(v interface{}) {
	if !childPanicked {
		childPanicked, childPanicVal = true, v
	}
}

// TakeChildPanic reports (once) a panic that escaped from a goroutine started by the library.
//
//go:norace
func TakeChildPanic() (interface{}, bool) {
	v, ok := childPanicVal, childPanicked
	childPanicked, childPanicVal = false, nil
	return v, ok
}

// LiveChildren reports how many goroutines started by the library have not finished.
//
//go:norace
func LiveChildren() int { return liveChildren }

// TakeChildFault reports (once) a memory fault raised inside a goroutine started by the library.
//
//go:norace
func TakeChildFault() (uintptr, bool) {
	a, ok := childFaultAddr, childFaulted
	childFaulted = false
	return a, ok
}

//go:norace
func noteChildOverrun() { childOver = true }

// GoCall is the body of every goroutine the library starts. It parks until the
// scheduler grants it a slice, runs the original call (function value and
// arguments were evaluated by the parent, as the go statement requires) and
// reports its end.
// GoCallL is what the instrumenter emits: the function value, its arguments,
// and the client id (from Spawn) last.
func GoCallL(fn interface{}, argsAndID ...interface{}) {
	n := len(argsAndID) - 1
	GoCall(argsAndID[n].(int), fn, argsAndID[:n]...)
}

func GoCall(id int, fn interface{}, args ...interface{}) {
	if id >= 0 {
		// a write to caller-owned (read-only) memory must not take the
		// process down from a goroutine of the library either
		debug.SetPanicOnFault(true)
		ClientStart(id)
		BeginOp(childBudget)
		defer func() {
			if r := recover(); r != nil {
				if ae, isFault := r.(interface{ Addr() uintptr }); isFault {
					if _, isRT := r.(runtime.Error); isRT {
						noteChildFault(ae.Addr())
						childEnded()
						Yield(KTaskDone)
						return
					}
				}
				be, ok := r.(BudgetExceeded)
				if !ok {
					// An unrecovered panic in a goroutine takes a real process
					// down. Here it is recorded for the call during which it
					// happened, and the goroutine ends.
					noteChildPanic(r)
					childEnded()
					Yield(KTaskDone)
					return
				}
				trace("child-budget", id, int(be.Limit))
				if tracing {
					syscall.Write(2, debug.Stack())
				}
				noteChildOverrun()
			}
			childEnded()
			Yield(KTaskDone)
		}()
	}
	f := reflect.ValueOf(fn)
	t := f.Type()
	in := make([]reflect.Value, len(args))
	for i, a := range args {
		var pt reflect.Type
		if t.IsVariadic() && i >= t.NumIn()-1 {
			pt = t.In(t.NumIn() - 1).Elem()
		} else {
			pt = t.In(i)
		}
		if a == nil {
			in[i] = reflect.Zero(pt)
			continue
		}
		v := reflect.ValueOf(a)
		if !v.Type().AssignableTo(pt) && v.Type().ConvertibleTo(pt) {
			v = v.Convert(pt) // untyped constants arrive with their default type
		}
		in[i] = v
	}
	f.Call(in)
}

//go:norace
func StopBaton() { baton = false; countdown = 0; limit = 0 }

// ClientStart parks a freshly started client until the scheduler grants it
// its first slice.
//
//go:norace
func ClientStart(id int) {
	v := rawRead(taskR[id])
	cur = id
	opPts = 0
	limit = 0
	setSlice(int64(v))
}

//go:norace
func setSlice(v int64) {
	if v == UntilSync {
		countdown, syncYield = 0, true
		return
	}
	countdown, syncYield = v, false
}

// Yield hands the baton back to the scheduler and (except for KTaskDone)
// parks until the next grant. The running client's per-op counters survive in
// its own stack frame.
//
//go:norace
func Yield(kind uint64) {
	if !baton {
		return
	}
	id := cur
	savedPts, savedLimit := opPts, limit
	countdown, syncYield = 0, false
	trace("yield", id, int(kind))
	rawWrite(schedW, uint64(id)<<8|kind)
	if kind == KTaskDone {
		return
	}
	v := rawRead(taskR[id])
	cur = id
	opPts, limit = savedPts, savedLimit
	setSlice(int64(v))
}

// Blocked is called by the sync shims while spinning on a lock.
//
//go:norace
func Blocked() {
	if baton && deadlocked && (limit != 0 || deadPanicked) {
		// the scheduler found that no client can ever make progress: end the
		// call the way a non-terminating call is ended (and again, should a
		// deferred function of the call start waiting while that panic unwinds)
		l := limit
		limit = 0
		deadPanicked = true
		if l == 0 {
			l = 1
		}
		panic(BudgetExceeded{-l})
	}
	if !baton {
		// Outside the baton exactly one goroutine uses the library. If it
		// cannot take a lock inside a budgeted call, nobody will ever release
		// it: the call has deadlocked against the process history (e.g. a
		// lock left held by an earlier panicking call). Report it the way a
		// non-terminating call is reported.
		if limit != 0 {
			l := limit
			limit = 0
			panic(BudgetExceeded{-l})
		}
		runtime.Gosched()
		return
	}
	if tracing {
		for sk := 1; sk <= 3; sk++ {
			if _, file, line, ok := runtime.Caller(sk); ok {
				n := len(file)
				if n > 24 {
					file = file[n-24:]
				}
				syscall.Write(2, []byte("  blocked at "+file+":"))
				trace("", line, cur)
			}
		}
	}
	Yield(KBlocked)
}

// Channels. The instrumenter rewrites `ch <- v` into
//
//	{ zzh := zzsimrt.WaitSend(ch); ch <- v; zzsimrt.AfterSend(zzh) }
//
// puts zzsimrt.WaitRecv(ch) in front of every statement that receives from ch
// (and around the implicit receives of a range over a channel), and
// zzsimrt.Closing(ch) in front of close(ch).
//
// Buffered channel: under the baton only one client runs at a time, so once
// the channel has room (an element, or has been closed) the real operation
// that follows cannot block; until then the client yields like one spinning on
// a lock, and a deadlock is detected the same, exact way.
//
// Unbuffered channel: a rendezvous. A receiver announces itself and yields
// (blocked) until a sender has committed itself to it. A sender waits
// (blocked) until a receiver has announced itself, commits to the one that
// came first, and then does something no other operation does: it reports
// KHandoff naming the receiver and, WITHOUT parking, walks into the real send.
// Grant passes the baton straight to the receiver, whose real receive meets
// the real send in the Go runtime (so the race detector sees the edge the
// channel really makes); the receiver carries on with the baton, the sender
// parks in AfterSend until it is granted again. Between the hand-off and that
// park the sender executes nothing but the send itself.
//
// WaitSend returns the id to pass to AfterSend, or -1 if there is nothing to
// re-enter.
func WaitSend(ch interface{}) int {
	v := reflect.ValueOf(ch)
	if v.Kind() != reflect.Chan || v.IsNil() {
		return -1
	}
	p := v.Pointer()
	if v.Cap() == 0 {
		if !BatonOn() {
			return -1
		}
		SyncPoint()
		for {
			if chanClosed(p) {
				return -1 // the real send panics, as it must
			}
			if r := takeReceiver(p); r >= 0 {
				return handoff(r)
			}
			Blocked()
		}
	}
	SyncPoint()
	for v.Len() == v.Cap() && !chanClosed(p) {
		Blocked()
	}
	return -1
}

// AfterSend parks a sender that handed the baton to its receiver.
//
//go:norace
func AfterSend(id int) {
	if id < 0 {
		return
	}
	v := rawRead(taskR[id])
	trace("aftersend-wake", id, 0)
	cur = id
	opPts, limit = savedPts[id], savedLimit[id]
	setSlice(int64(v))
}

//go:norace
func handoff(r int) int {
	id := cur
	committed[r] = true
	savedPts[id], savedLimit[id] = opPts, limit
	countdown, syncYield = 0, false
	handoffTo = r
	handoffs++
	trace("handoff", id, r)
	rawWrite(schedW, uint64(id)<<8|KHandoff)
	return id
}

//go:norace
func takeReceiver(p uintptr) int {
	for i := 0; i < nRecvReady; i++ {
		if recvReady[i].ch == p {
			id := recvReady[i].id
			for j := i + 1; j < nRecvReady; j++ {
				recvReady[j-1] = recvReady[j]
			}
			nRecvReady--
			return id
		}
	}
	return -1
}

//go:norace
func addReceiver(p uintptr) int {
	committed[cur] = false
	if nRecvReady >= MaxClients {
		fatal("zzsimrt: too many waiting receivers")
	}
	recvReady[nRecvReady] = chanWaiter{p, cur}
	nRecvReady++
	return cur
}

//go:norace
func dropReceiver(p uintptr, id int) {
	committed[id] = false
	for i := 0; i < nRecvReady; i++ {
		if recvReady[i].ch == p && recvReady[i].id == id {
			for j := i + 1; j < nRecvReady; j++ {
				recvReady[j-1] = recvReady[j]
			}
			nRecvReady--
			return
		}
	}
}

//go:norace
func isCommitted(id int) bool { return committed[id] }

//go:norace
func chanClosed(p uintptr) bool {
	for i := 0; i < nClosed; i++ {
		if closedCh[i] == p {
			return true
		}
	}
	return false
}

//go:norace
func markClosed(p uintptr, ch interface{}) {
	if chanClosed(p) {
		return
	}
	if nClosed >= maxClosed {
		fatal("zzsimrt: the library closed more channels in one session than the simulator keeps track of")
	}
	closedCh[nClosed] = p
	keepCh[nClosed] = ch
	nClosed++
}

//go:norace
func resetChans() {
	nRecvReady = 0
	for i := range committed {
		committed[i] = false
	}
	for i := 0; i < nClosed; i++ {
		keepCh[i] = nil
	}
	nClosed = 0
}

// Handoffs reports how many rendezvous on unbuffered channels were completed.
//
//go:norace
func Handoffs() int64 { return handoffs }

// WaitRecv is the counterpart for channel receives.
func WaitRecv(ch interface{}) {
	v := reflect.ValueOf(ch)
	if v.Kind() != reflect.Chan || v.IsNil() {
		return
	}
	p := v.Pointer()
	if v.Cap() == 0 {
		if !BatonOn() {
			return
		}
		SyncPoint()
		if chanClosed(p) {
			return
		}
		me := addReceiver(p)
		defer dropReceiver(p, me) // also when the wait ends in a budget panic
		for !isCommitted(me) && !chanClosed(p) {
			Blocked()
		}
		return
	}
	SyncPoint()
	for v.Len() == 0 && !chanClosed(p) {
		trace("waitrecv-empty ptrlo/ptrhi", int(p&0xffffff), int(p>>24))
		Blocked()
	}
}

// Closing is inserted in front of close(ch): receivers waiting for ch stop waiting.
func Closing(ch interface{}) {
	v := reflect.ValueOf(ch)
	if v.Kind() != reflect.Chan || v.IsNil() {
		return
	}
	SyncPoint()
	markClosed(v.Pointer(), ch)
}

// SelectCheck is inserted in front of every select of the library: the polling
// loop that replaces a blocking select, and a select with a default clause,
// cannot take part in the rendezvous protocol of unbuffered channels.
func SelectCheck(chs ...interface{}) {
	for _, ch := range chs {
		v := reflect.ValueOf(ch)
		if tracing && v.Kind() == reflect.Chan && !v.IsNil() {
			trace("select-chan len/cap", v.Len(), v.Cap())
			trace("select-chan ptr", int(v.Pointer()&0xffffff), int(v.Pointer()>>24))
		}
		if v.Kind() == reflect.Chan && !v.IsNil() && v.Cap() == 0 && BatonOn() {
			fatal("zzsimrt: the library uses an unbuffered channel in a select; the simulator must be extended before it can judge this tree")
		}
	}
}

// Grant lets client id run for at most slice points (slice<=0: until it
// reports by itself) and returns who came back and why.
//
//go:norace
func Grant(id int, slice int64) (who int, kind uint64) {
	if slice < 0 && slice != UntilSync {
		slice = 0
	}
	trace("grant", id, int(slice))
	rawWrite(taskW[id], uint64(slice))
	for {
		v := rawRead(schedR)
		who, kind = int(v>>8), v&0xff
		if kind != KHandoff {
			return who, kind
		}
		// a rendezvous: the partner runs next, whatever the schedule family
		// would have chosen (who may differ from id from here on)
		rawWrite(taskW[handoffTo], uint64(slice))
	}
}

// BatonTopLevelOnly reports whether no library goroutine was ever started in
// this baton session (the common case: nothing extra to check).
//
//go:norace
func BatonTopLevelOnly() bool { return !childSeen }

var childSeen bool

// ---------------------------------------------------------------- simulated clock
//
// The library under test has no clock of its own on the pinned tree. If a
// changed tree starts using time (a timeout around the entropy read, say), its
// timers and sleeps run on this discrete-event clock: time only moves when
// every client is blocked, and then jumps straight to the next event.

// SimTimer is one pending event of the simulated clock.
type SimTimer struct {
	at      int64
	seq     uint64
	fire    func() // runs on the scheduler's side when the clock reaches at
	stopped bool
	fired   bool
	hb      uint32 // carries the happens-before edges a real timer has: creation -> firing -> whoever waited for it
}

// timerPublish and timerObserve are deliberately visible to the race
// detector (a real timer's creation happens before its firing, and its firing
// before the wake-up of whoever waited for it); everything else about the
// simulated clock is invisible to it.
//
//go:noinline
func timerPublish(t *SimTimer) { atomic.AddUint32(&t.hb, 1) }

//go:noinline
func timerObserve(t *SimTimer) { atomic.LoadUint32(&t.hb) }

//go:norace
func timerFired(t *SimTimer) bool { return t.fired }

var (
	simNow    int64 // simulated nanoseconds since the start of the process
	simSeq    uint64
	simTimers []*SimTimer
	simJumps  int64
)

//go:norace
func SimNow() int64 { return simNow }

// SimAdvanced reports how far the simulated clock has moved and in how many jumps.
//
//go:norace
func SimAdvanced() (ns int64, jumps int64) { return simNow, simJumps }

// AddTimer schedules fire to run when the simulated clock has advanced by d.
//
//go:norace
func AddTimer(d int64, fire func()) *SimTimer {
	if d < 0 {
		d = 0
	}
	simSeq++
	t := &SimTimer{at: simNow + d, seq: simSeq, fire: fire}
	simTimers = append(simTimers, t)
	timerPublish(t)
	return t
}

// StopTimer cancels t; it reports whether the timer was still pending.
//
//go:norace
func StopTimer(t *SimTimer) bool {
	if t == nil || t.fired || t.stopped {
		return false
	}
	t.stopped = true
	return true
}

// AdvanceClock is called by a scheduler when no client can run: it jumps to
// the earliest pending event, fires it, and reports whether there was one.
//
//go:norace
func AdvanceClock() bool {
	best := -1
	for i, t := range simTimers {
		if t.stopped || t.fired {
			continue
		}
		if best < 0 || t.at < simTimers[best].at || (t.at == simTimers[best].at && t.seq < simTimers[best].seq) {
			best = i
		}
	}
	// drop dead entries now and then
	if len(simTimers) > 64 {
		live := simTimers[:0]
		var keep *SimTimer
		if best >= 0 {
			keep = simTimers[best]
		}
		for _, t := range simTimers {
			if !t.stopped && !t.fired {
				live = append(live, t)
			}
		}
		simTimers = live
		best = -1
		for i, t := range simTimers {
			if t == keep {
				best = i
			}
		}
	}
	if best < 0 {
		return false
	}
	t := simTimers[best]
	if t.at > simNow {
		simNow = t.at
		simJumps++
	}
	timerObserve(t)
	if t.fire != nil {
		t.fire()
	}
	timerPublish(t)
	t.fired = true
	return true
}

// SleepSim blocks the calling client for d simulated nanoseconds.
func SleepSim(d int64) {
	if d <= 0 {
		SyncPoint()
		return
	}
	if !baton {
		return // nobody to advance the clock: a sleep is a no-op outside the simulation
	}
	t := AddTimer(d, nil)
	SyncPoint()
	for !timerFired(t) {
		Blocked()
	}
	timerObserve(t)
}
